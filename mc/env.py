"""Owning nondeterminism: import guard, time zone, scratch directories, allocator poison,
fd accounting.  Everything a check needs from the outside world goes through here."""
import atexit
import contextlib
import os
import shutil
import sys
import tempfile
import time

REPO = os.environ.get("VERIF_REPO", "/repo")
VERIF = os.path.dirname(os.path.dirname(os.path.abspath(__file__)))
# where evidence/ and replays/ are written; redirected when a check is pointed at a scratch tree
OUT = os.environ.get("VERIF_OUT", VERIF)
SEED = int(os.environ.get("VERIF_SEED", "0") or 0)
CAPTURE = os.path.join(REPO, "tests", "test_files", "2838~aa~Walking 01.tdf")

_ready = False


def setup():
    """Make `import basictdf` resolve to REPO's *current working tree* and pin the zone."""
    global _ready
    if _ready:
        return
    os.environ["TZ"] = "UTC"
    time.tzset()
    src = os.path.realpath(os.path.join(REPO, "src"))
    sys.path.insert(0, src)
    sys.dont_write_bytecode = True
    import basictdf  # noqa

    got = os.path.realpath(basictdf.__file__)
    if not got.startswith(src + os.sep):
        raise SystemExit(f"harness error: basictdf imported from {got}, expected {src}")
    _install_clock()
    _limit_memory()
    _ready = True


def set_tz(name="UTC"):
    """The process's time zone (the library converts stored seconds to naive local datetimes and back).
    Checks run under UTC; some container configurations run under a fixed-offset zone given as a POSIX
    TZ string (no zone database needed), so that a conversion that is only right under UTC shows."""
    if os.environ.get("TZ") != name:
        os.environ["TZ"] = name
        time.tzset()


def _limit_memory(gib=4):
    """Decoding garbage that a defective write path produced can ask for tens of gigabytes (array extents
    read from the wrong place); with an address-space limit that is a prompt MemoryError instead of
    minutes of paging.  The checks themselves need well under 1 GiB per process."""
    try:
        import resource

        soft, hard = resource.getrlimit(resource.RLIMIT_AS)
        want = gib << 30
        if hard != resource.RLIM_INFINITY:
            want = min(want, hard)
        if soft == resource.RLIM_INFINITY or soft > want:
            resource.setrlimit(resource.RLIMIT_AS, (want, hard))
    except Exception:  # noqa: BLE001
        pass


class _Clock:
    base = 1_700_000_000
    ticks = 0


def _install_clock():
    """Own `datetime.now()` inside the library: a deterministic clock that advances one second per
    call (so that two things stamped by different calls get different dates, reproducibly).  Best
    effort: a module that does not expose the name `datetime` is left alone; no oracle relies on it."""
    import datetime as _dt
    import importlib

    class FakeDateTime(_dt.datetime):
        @classmethod
        def now(cls, tz=None):
            _Clock.ticks += 1
            return cls.fromtimestamp(_Clock.base + _Clock.ticks, tz)

    for name in ("basictdf.basictdf", "basictdf.tdfBlock"):
        try:
            mod = importlib.import_module(name)
            if getattr(mod, "datetime", None) is _dt.datetime:
                mod.datetime = FakeDateTime
        except Exception:  # noqa: BLE001
            pass


def reset_clock(ticks=0):
    _Clock.ticks = ticks


def cores():
    try:
        n = len(os.sched_getaffinity(0))
    except Exception:
        n = os.cpu_count() or 1
    return max(1, min(16, n))


_scratch_roots = []


def scratch_dir(tag="mc"):
    """A private directory on a RAM disk (never under /repo, /verif or a path a registered
    command depends on); removed at exit."""
    base = "/dev/shm" if os.path.isdir("/dev/shm") and os.access("/dev/shm", os.W_OK) else None
    d = tempfile.mkdtemp(prefix=f"basictdf-{tag}-{os.getpid()}-", dir=base)
    _scratch_roots.append((os.getpid(), d))
    return d


def _cleanup():
    for pid, d in _scratch_roots:
        if pid == os.getpid():
            shutil.rmtree(d, ignore_errors=True)


atexit.register(_cleanup)


def open_fds_on(path):
    """Descriptors of this process that refer to `path` (independent of attribute names)."""
    real = os.path.realpath(path)
    out = []
    try:
        for name in os.listdir("/proc/self/fd"):
            try:
                if os.readlink(f"/proc/self/fd/{name}") == real:  # the kernel reports resolved paths
                    out.append(int(name))
            except OSError:
                pass
    except OSError:
        pass
    return out


POISONS = (0x00, 0x5A, 0xA5)


@contextlib.contextmanager
def poisoned_allocator(byte):
    """Environment choice 'what does fresh memory contain': every numpy.empty buffer handed
    to the code under test is pre-filled with `byte`.  0xFF is deliberately not used (it
    reads as NaN in floats and would hide a missing NaN fill)."""
    import numpy as np

    real_empty = np.empty

    def empty(*a, **k):
        arr = real_empty(*a, **k)
        try:
            if arr.dtype.hasobject:
                return arr
            arr.view(np.uint8).reshape(-1)[:] = byte
        except Exception:
            try:
                arr.fill(0)
                raw = np.frombuffer(arr.data, dtype=np.uint8)  # may fail for odd layouts
                raw.flags.writeable and raw.__setitem__(slice(None), byte)
            except Exception:
                pass
        return arr

    np.empty = empty
    try:
        yield
    finally:
        np.empty = real_empty


class LibraryCallTimeout(Exception):
    pass


@contextlib.contextmanager
def time_limit(seconds):
    """Bound a call into the library (decoding garbage that a defective write path produced can loop over
    billions of frames).  SIGALRM based: only effective in the main thread of a process, which is where all
    explorers run."""
    import signal
    import threading

    if threading.current_thread() is not threading.main_thread() or not hasattr(signal, "setitimer"):
        yield
        return

    def on_alarm(signum, frame):
        raise LibraryCallTimeout(f"library call did not return within {seconds} s")

    old = signal.signal(signal.SIGALRM, on_alarm)
    signal.setitimer(signal.ITIMER_REAL, seconds)
    try:
        yield
    finally:
        signal.setitimer(signal.ITIMER_REAL, 0)
        signal.signal(signal.SIGALRM, old)


def rotate(seq, k=None):
    """Seed-dependent rotation of an alphabet (order only; membership never changes)."""
    seq = list(seq)
    if not seq:
        return seq
    k = SEED if k is None else k
    k %= len(seq)
    return seq[k:] + seq[:k]
