"""Shape-space mode: push every builder state of gen.family through a per-property oracle on
the real codec, sharded over cores.  Used by C01, C02, C05, C06 (and as input source by
C12/C14)."""
import hashlib

from . import core, env, gen, specs
from . import tdfref as R

NSHARD = 4


def shards(types=R.WRITABLE, nshard=NSHARD):
    return [(t, i, nshard) for t in types for i in range(nshard)]


def spec_key(sp, opts):
    try:
        body = R.encode_block(sp)
    except Exception:  # noqa: BLE001 - an input the reference layout cannot express (a request that may be refused)
        import json

        body = json.dumps(specs.dump(sp), sort_keys=True).encode()
    return hashlib.sha1(body + repr((sp["type"], sp["format"], sorted(opts.items()))).encode()).digest()


def nontrivial(sp):
    """>= 2 items, or some item with a gap / None cell (the shapes the pinned tests never build)."""
    t = sp["type"]
    if t in gen.RLE_TYPES:
        items = sp["tracks"] if "tracks" in sp else sp["items"]
        if len(items) >= 2:
            return True
        lab = gen.spec_label(sp)
        return "." in lab.split("masks=")[1]
    if t == R.T_DATA2D:
        return any(c is None for row in sp["cells"] for c in row) or sp["nCams"] * sp["nFrames"] > 4
    for k in ("items", "cams", "channels", "events"):
        if k in sp:
            return len(sp[k]) >= 2
    return False


def run_shard(shard, tier, check_one, prop, extra_inputs=None):
    """check_one(spec, opts, acc, tag) raises core.Violation or returns an outcome tag."""
    t, i, k = shard
    acc = core.Acc()
    seen = set()
    src = gen.family(t, tier)
    if extra_inputs is not None:
        import itertools
        src = itertools.chain(src, extra_inputs(t, tier))
    for idx, (tag, sp, opts) in enumerate(src):
        if idx % k != i:
            continue
        key = spec_key(sp, opts)
        acc.n["evaluations"] += 1
        if key in seen:
            continue
        seen.add(key)
        acc.n["states"] += 1
        if nontrivial(sp):
            acc.n["nontrivial"] += 1
        acc.sample({"family": tag, "block": gen.spec_label(sp), "opts": opts}, 2)
        try:
            out = check_one(sp, opts, acc, tag)
            acc.outcomes[f"{R.NAMES[t]}:{out or 'ok'}"] += 1
            acc.n["traces"] += 1
        except core.Violation as v:
            acc.violation(v.clause, v.sig, {"spec": specs.dump(sp), "opts": opts, "tag": tag, "shard": list(shard), "idx": idx, "tier": tier,
                                            "extra": extra_inputs is not None}, v.detail)
    return acc


def replay(w, check_one, extra_inputs=None):
    """Replay a shape witness: first the input alone on fresh objects; if that does not reproduce, the
    inputs of its shard in their original order up to and including it (library state that builds up
    from one input to the next - class-level containers, caches keyed on content - needs the prefix)."""
    try:
        check_one(specs.load(w["spec"]), w["opts"], core.Acc(), w.get("tag", ""))
    except core.Violation as v:
        return v
    if "shard" not in w:
        return None
    import itertools

    t, i, k = w["shard"]
    src = gen.family(t, w["tier"])
    if w.get("extra") and extra_inputs is not None:
        src = itertools.chain(src, extra_inputs(t, w["tier"]))
    acc = core.Acc()
    for idx, (tag, sp, opts) in enumerate(src):
        if idx % k != i:
            continue
        try:
            check_one(sp, opts, acc, tag)
        except core.Violation as v:
            if idx == w["idx"]:
                return core.Violation(v.clause, v.sig, None, v.detail + " [reproduced with the preceding inputs of its shard]")
        if idx >= w["idx"]:
            break
    return None


def viol(prop, sp, clause, tag, detail, extra=""):
    """Signature = property, block kind, oracle clause, family class (+ optional site)."""
    fam = tag.split("/")[0] if tag else ""
    sig = f"{prop}:{R.NAMES[sp['type']]}:{clause}:{fam}{(':' + extra) if extra else ''}"
    return core.Violation(clause, sig, None, f"{gen.spec_label(sp)} :: {detail}")
