"""Independent reference for the TDF layout.

Imports nothing from basictdf.  Written from the format as confirmed on the BTS capture
(tests/test_files/2838~aa~Walking 01.tdf, all eight blocks consumed to the byte).
Provides: file/jump-table parser and builder, per-block encoder (spec -> bytes, with an
optional junk source for don't-care bytes), decoder (bytes -> spec, consumed, don't-care
ranges), and an own cp1252 table.

A *spec* is a plain dict; numeric arrays are numpy arrays at on-disk width; a missing frame
is a row that is NaN in every component.
"""
import struct

import numpy as np

SIGNATURE = bytes.fromhex("824b6041d31184ca6000b6ac16680c08")
HEADER = 64
ENTRY = 288

# block type codes
T_UNUSED, T_CALIB, T_DATA2D, T_DATA3D, T_OPT, T_PLATCAL, T_PLATDATA, T_EMG, T_FORCE3D, T_EVENTS = (
    0, 2, 4, 5, 6, 7, 9, 11, 12, 16)
WRITABLE = (T_CALIB, T_DATA2D, T_DATA3D, T_OPT, T_PLATCAL, T_PLATDATA, T_EMG, T_FORCE3D, T_EVENTS)
OPAQUE = (1, 3, 8, 10, 13, 14, 15)
NAMES = {0: "unused", 1: "notDefined", 2: "calib", 3: "calib2D", 4: "data2D", 5: "data3D",
         6: "optical", 7: "platCal", 8: "platCal2D", 9: "platData", 10: "anthropo", 11: "emg",
         12: "force3D", 13: "volumetric", 14: "analog", 15: "genCal", 16: "events"}

# --------------------------------------------------------------------------- cp1252
_C1 = {0x80: 0x20AC, 0x82: 0x201A, 0x83: 0x0192, 0x84: 0x201E, 0x85: 0x2026, 0x86: 0x2020,
       0x87: 0x2021, 0x88: 0x02C6, 0x89: 0x2030, 0x8A: 0x0160, 0x8B: 0x2039, 0x8C: 0x0152,
       0x8E: 0x017D, 0x91: 0x2018, 0x92: 0x2019, 0x93: 0x201C, 0x94: 0x201D, 0x95: 0x2022,
       0x96: 0x2013, 0x97: 0x2014, 0x98: 0x02DC, 0x99: 0x2122, 0x9A: 0x0161, 0x9B: 0x203A,
       0x9C: 0x0153, 0x9E: 0x017E, 0x9F: 0x0178}
CP1252_UNDEFINED = (0x81, 0x8D, 0x8F, 0x90, 0x9D)
BYTE2CHAR = {}
for _b in range(256):
    if _b in CP1252_UNDEFINED:
        continue
    BYTE2CHAR[_b] = chr(_C1.get(_b, _b))
CHAR2BYTE = {c: b for b, c in BYTE2CHAR.items()}


def cp_encode(s):
    """str -> bytes or None when some character has no cp1252 byte."""
    out = bytearray()
    for ch in s:
        b = CHAR2BYTE.get(ch)
        if b is None:
            return None
        out.append(b)
    return bytes(out)


def cp_decode(b):
    """bytes -> str or None when an undefined byte occurs."""
    out = []
    for x in b:
        c = BYTE2CHAR.get(x)
        if c is None:
            return None
        out.append(c)
    return "".join(out)


def field_text(raw):
    """Content of a fixed-width field: up to the first NUL (whole field if none)."""
    i = raw.find(b"\0")
    return raw if i < 0 else raw[:i]


# --------------------------------------------------------------------------- stream helpers
class LayoutError(Exception):
    pass


class R:
    def __init__(self, data, pos=0):
        self.d = data
        self.p = pos
        self.dc = []  # don't-care byte ranges (absolute, half open)

    def take(self, n):
        if n < 0 or self.p + n > len(self.d):
            raise LayoutError(f"need {n} bytes at {self.p}, have {len(self.d) - self.p}")
        b = self.d[self.p:self.p + n]
        self.p += n
        return bytes(b)

    def i32(self):
        return struct.unpack("<i", self.take(4))[0]

    def u32(self):
        return struct.unpack("<I", self.take(4))[0]

    def f32(self):
        return np.frombuffer(self.take(4), "<f4")[0]

    def arr(self, dtype, shape):
        n = int(np.prod(shape)) if shape != () else 1
        dt = np.dtype(dtype)
        a = np.frombuffer(self.take(n * dt.itemsize), dt).reshape(shape)
        return a.copy()

    def skip_dc(self, n):
        self.take(n)
        self.dc.append((self.p - n, self.p))

    def S(self, width):
        start = self.p
        raw = self.take(width)
        i = raw.find(b"\0")
        if i >= 0 and i + 1 < width:
            self.dc.append((start + i + 1, start + width))
        text = cp_decode(raw if i < 0 else raw[:i])
        if text is None:
            raise LayoutError("undefined cp1252 byte inside string content")
        return text


class W:
    def __init__(self, junk=None):
        self.b = bytearray()
        self.junk = junk
        self.dc = []

    def raw(self, b):
        self.b += b

    def i32(self, v):
        self.b += struct.pack("<i", int(v))

    def u32(self, v):
        self.b += struct.pack("<I", int(v))

    def f32(self, v):
        self.b += np.asarray(v, dtype="<f4").tobytes()

    def arr(self, a, dtype, shape=None):
        a = np.ascontiguousarray(np.asarray(a), dtype=np.dtype(dtype))
        if shape is not None and tuple(a.shape) != tuple(shape):
            raise LayoutError(f"spec array shape {a.shape} != {shape}")
        self.b += a.tobytes()

    def pad_dc(self, n):
        self.dc.append((len(self.b), len(self.b) + n))
        self.b += self.junk(n) if self.junk else bytes(n)

    full_ok = False     # other software may fill a field completely, without a terminator

    def S(self, width, s):
        e = cp_encode(s)
        if self.full_ok and e is not None and b"\0" not in e and len(e) == width:
            self.b += e
            return
        if e is None or b"\0" in e or len(e) >= width:
            raise LayoutError(f"text not storable in {width} bytes: {s!r}")
        self.b += e + b"\0"
        rest = width - len(e) - 1
        if rest:
            self.pad_dc(rest)


# --------------------------------------------------------------------------- run-length helper
def runs(present):
    """Maximal runs of True in a boolean sequence -> [(start, n)]."""
    out = []
    start = None
    for i, p in enumerate(list(present) + [False]):
        if p and start is None:
            start = i
        elif not p and start is not None:
            out.append((start, i - start))
            start = None
    return out


def present_rows(*arrays, inf_is_value=False):
    """Row i is present iff the first component of the first array is a finite number (the convention
    of the format's writers: the X coordinate / the application point's X decides; the library under
    test treats NaN and +-inf there alike as "no sample").  A present row may carry NaN in its other
    components - they are stored like any other value.  A row that is absent by this rule but carries
    a number in another component would lose it: malformed spec.  (An absent row whose first component
    is +-inf reads back as NaN: only the size / layout checks use such rows, never a round-trip oracle.)"""
    n = len(arrays[0])
    first = np.asarray(arrays[0]).reshape(n, -1)
    # inf_is_value: the other legitimate convention - only NaN in the first component means "no sample", +-inf is stored
    present = (~np.isnan(first[:, 0]) if inf_is_value else np.isfinite(first[:, 0])) if first.shape[1] else np.zeros(n, bool)
    rest_nan = np.ones(n, bool)
    for k, a in enumerate(arrays):
        a2 = np.asarray(a).reshape(n, -1)
        rest_nan &= np.isnan(a2[:, 1:] if k == 0 else a2).all(axis=1)
    if (~present & ~rest_nan).any():
        raise LayoutError("a frame without first component carries samples")
    return present


def _write_segments(w, segs):
    w.i32(len(segs))
    w.pad_dc(4)
    for s, n in segs:
        w.i32(s)
        w.i32(n)


def _read_segments(r, nframes):
    nseg = r.i32()
    r.skip_dc(4)
    if nseg < 0 or nseg > max(nframes, 0) + 1:
        raise LayoutError(f"segment count {nseg}")
    segs = [(r.i32(), r.i32()) for _ in range(nseg)]
    for s, n in segs:
        if s < 0 or n < 0 or s + n > nframes:
            raise LayoutError(f"segment {(s, n)} outside 0..{nframes}")
    return segs


# --------------------------------------------------------------------------- block codecs
def _enc_geom(w, sp):
    w.arr(sp["vol"], "<f4", (3,))
    w.arr(sp["rot"], "<f4", (3, 3))
    w.arr(sp["trans"], "<f4", (3,))


def _dec_geom(r, sp):
    sp["vol"] = r.arr("<f4", (3,))
    sp["rot"] = r.arr("<f4", (3, 3))
    sp["trans"] = r.arr("<f4", (3,))


def enc_data3d(w, sp):
    if sp["format"] not in (1, 2):
        raise LayoutError("data3D format")
    w.i32(sp["nFrames"]); w.i32(sp["frequency"]); w.f32(sp["startTime"]); w.u32(len(sp["tracks"]))
    _enc_geom(w, sp)
    w.u32(sp["flags"])
    if sp["format"] == 1:
        links = sp.get("links") or []
        w.i32(len(links)); w.pad_dc(4)
        for a, b in links:
            w.u32(a); w.u32(b)
    for t in sp["tracks"]:
        w.S(256, t["label"])
        data = np.asarray(t["data"], "<f4").reshape(sp["nFrames"], 3)
        segs = runs(present_rows(data, inf_is_value=getattr(w, "inf_is_value", False)))
        _write_segments(w, segs)
        for s, n in segs:
            w.arr(data[s:s + n], "<f4")


def dec_data3d(r, fmt):
    if fmt not in (1, 2):
        raise LayoutError("data3D format")
    sp = {"type": T_DATA3D, "format": fmt}
    sp["nFrames"] = r.i32(); sp["frequency"] = r.i32(); sp["startTime"] = r.f32(); ntr = r.u32()
    _dec_geom(r, sp)
    sp["flags"] = r.u32()
    if fmt == 1:
        nl = r.i32(); r.skip_dc(4)
        sp["links"] = [(r.u32(), r.u32()) for _ in range(nl)]
    sp["tracks"] = []
    for _ in range(ntr):
        label = r.S(256)
        segs = _read_segments(r, sp["nFrames"])
        data = np.full((sp["nFrames"], 3), np.nan, "<f4")
        for s, n in segs:
            data[s:s + n] = r.arr("<f4", (n, 3))
        sp["tracks"].append({"label": label, "data": data, "segs": segs})
    return sp


def enc_emg(w, sp):
    if sp["format"] != 1:
        raise LayoutError("emg format")
    items = sp["items"]
    w.i32(len(items)); w.i32(sp["frequency"]); w.f32(sp["startTime"]); w.i32(sp["nSamples"] - 49)
    w.arr([c for c, _ in items], "<i2")
    for _, t in items:
        w.S(256, t["label"])
        data = np.asarray(t["data"], "<f4").reshape(sp["nSamples"])
        segs = runs(present_rows(data, inf_is_value=getattr(w, "inf_is_value", False)))
        _write_segments(w, segs)
        for s, n in segs:
            w.arr(data[s:s + n], "<f4")


def dec_emg(r, fmt):
    if fmt != 1:
        raise LayoutError("emg format")
    sp = {"type": T_EMG, "format": fmt}
    n = r.i32(); sp["frequency"] = r.i32(); sp["startTime"] = r.f32(); sp["nSamples"] = r.i32() + 49
    chans = r.arr("<i2", (n,))
    sp["items"] = []
    for k in range(n):
        label = r.S(256)
        segs = _read_segments(r, sp["nSamples"])
        data = np.full(sp["nSamples"], np.nan, "<f4")
        for s, m in segs:
            data[s:s + m] = r.arr("<f4", (m,))
        sp["items"].append((int(chans[k]), {"label": label, "data": data, "segs": segs}))
    return sp


def enc_force3d(w, sp):
    if sp["format"] != 1:
        raise LayoutError("force3D format")
    w.i32(len(sp["tracks"])); w.i32(sp["frequency"]); w.f32(sp["startTime"]); w.i32(sp["nFrames"])
    _enc_geom(w, sp)
    w.pad_dc(4)
    n = sp["nFrames"]
    for t in sp["tracks"]:
        w.S(256, t["label"])
        ap = np.asarray(t["ap"], "<f4").reshape(n, 3)
        f = np.asarray(t["force"], "<f4").reshape(n, 3)
        tq = np.asarray(t["torque"], "<f4").reshape(n, 3)
        segs = runs(present_rows(ap, f, tq, inf_is_value=getattr(w, "inf_is_value", False)))
        _write_segments(w, segs)
        for s, m in segs:
            w.arr(np.concatenate([ap[s:s + m], f[s:s + m], tq[s:s + m]], axis=1), "<f4")


def dec_force3d(r, fmt):
    if fmt != 1:
        raise LayoutError("force3D format")
    sp = {"type": T_FORCE3D, "format": fmt}
    ntr = r.i32(); sp["frequency"] = r.i32(); sp["startTime"] = r.f32(); sp["nFrames"] = r.i32()
    _dec_geom(r, sp)
    r.skip_dc(4)
    n = sp["nFrames"]
    sp["tracks"] = []
    for _ in range(ntr):
        label = r.S(256)
        segs = _read_segments(r, n)
        rec = np.full((n, 9), np.nan, "<f4")
        for s, m in segs:
            rec[s:s + m] = r.arr("<f4", (m, 9))
        sp["tracks"].append({"label": label, "ap": rec[:, 0:3].copy(), "force": rec[:, 3:6].copy(),
                             "torque": rec[:, 6:9].copy(), "segs": segs})
    return sp


def enc_platdata(w, sp):
    if sp["format"] != 1:
        raise LayoutError("platData format")
    items = sp["items"]
    n = sp["nFrames"]
    w.i32(len(items)); w.i32(sp["frequency"]); w.f32(sp["startTime"]); w.i32(n)
    w.arr([c for c, _ in items], "<u2")
    for _, p in items:
        ap = np.asarray(p["ap"], "<f4").reshape(n, 2)
        f = np.asarray(p["force"], "<f4").reshape(n, 3)
        tq = np.asarray(p["torque"], "<f4").reshape(n, 1)
        segs = runs(present_rows(ap, f, tq, inf_is_value=getattr(w, "inf_is_value", False)))
        _write_segments(w, segs)
        for s, m in segs:
            w.arr(np.concatenate([ap[s:s + m], f[s:s + m], tq[s:s + m]], axis=1), "<f4")


def dec_platdata(r, fmt):
    if fmt != 1:
        raise LayoutError("platData format")
    sp = {"type": T_PLATDATA, "format": fmt}
    k = r.i32(); sp["frequency"] = r.i32(); sp["startTime"] = r.f32(); sp["nFrames"] = r.i32()
    n = sp["nFrames"]
    chans = r.arr("<u2", (k,))
    sp["items"] = []
    for i in range(k):
        segs = _read_segments(r, n)
        rec = np.full((n, 6), np.nan, "<f4")
        for s, m in segs:
            rec[s:s + m] = r.arr("<f4", (m, 6))
        sp["items"].append((int(chans[i]), {"ap": rec[:, 0:2].copy(), "force": rec[:, 2:5].copy(),
                                            "torque": rec[:, 5].copy(), "segs": segs}))
    return sp


def enc_platcal(w, sp):
    if sp["format"] != 2:
        raise LayoutError("platCal format")
    items = sp["items"]
    w.i32(len(items)); w.pad_dc(4)
    w.arr([c for c, _ in items], "<i2")
    for _, p in items:
        w.S(256, p["label"])
        w.arr(p["size"], "<f4", (2,))
        w.arr(p["position"], "<f4", (4, 3))
        w.pad_dc(256)


def dec_platcal(r, fmt):
    if fmt != 2:
        raise LayoutError("platCal format")
    sp = {"type": T_PLATCAL, "format": fmt}
    k = r.i32(); r.skip_dc(4)
    chans = r.arr("<i2", (k,))
    sp["items"] = []
    for i in range(k):
        label = r.S(256)
        size = r.arr("<f4", (2,))
        pos = r.arr("<f4", (4, 3))
        r.skip_dc(256)
        sp["items"].append((int(chans[i]), {"label": label, "size": size, "position": pos}))
    return sp


def enc_data2d(w, sp):
    if sp["format"] != 2:
        raise LayoutError("data2D format")
    nc, nf = sp["nCams"], sp["nFrames"]
    w.i32(nc); w.i32(nf); w.i32(sp["frequency"]); w.f32(sp["startTime"]); w.u32(sp["flags"])
    w.arr(sp["map"], "<u2", (nc,))
    cells = sp["cells"]  # cells[frame][cam] = None | (k,2) array
    counts = np.zeros((nc, nf), "<u2")
    for fr in range(nf):
        for c in range(nc):
            if cells[fr][c] is not None:
                counts[c, fr] = len(cells[fr][c])
    w.arr(counts, "<u2")
    for fr in range(nf):
        for c in range(nc):
            if cells[fr][c] is not None and len(cells[fr][c]):
                w.arr(np.asarray(cells[fr][c], "<f4").reshape(-1, 2), "<f4")


def dec_data2d(r, fmt):
    if fmt != 2:
        raise LayoutError("data2D format")
    sp = {"type": T_DATA2D, "format": fmt}
    nc = r.i32(); nf = r.i32(); sp["frequency"] = r.i32(); sp["startTime"] = r.f32(); sp["flags"] = r.u32()
    sp["nCams"], sp["nFrames"] = nc, nf
    sp["map"] = r.arr("<u2", (nc,))
    counts = r.arr("<u2", (nc, nf))
    cells = []
    for fr in range(nf):
        row = []
        for c in range(nc):
            k = int(counts[c, fr])
            row.append(r.arr("<f4", (k, 2)) if k else None)
        cells.append(row)
    sp["cells"] = cells
    return sp


def enc_calib(w, sp):
    fmt = sp["format"]
    if fmt not in (1, 2):
        raise LayoutError("calib format")
    cams = sp["cams"]
    w.i32(len(cams)); w.i32(sp["model"])
    _enc_geom(w, sp)
    w.arr(sp["map"], "<i2", (len(cams),))
    for c in cams:
        w.arr(c["R"], "<f8", (3, 3)); w.arr(c["T"], "<f8", (3,))
        w.arr(c["focus"], "<f8", (2,)); w.arr(c["center"], "<f8", (2,))
        if fmt == 1:
            w.arr(c["radial"], "<f8", (2,)); w.arr(c["decentering"], "<f8", (2,)); w.arr(c["thin"], "<f8", (2,))
        else:
            w.arr(c["xd"], "<f8", (70,)); w.arr(c["yd"], "<f8", (70,))
        w.arr(c["origin"], "<i4", (2,)); w.arr(c["size"], "<i4", (2,))


def dec_calib(r, fmt):
    if fmt not in (1, 2):
        raise LayoutError("calib format")
    sp = {"type": T_CALIB, "format": fmt}
    n = r.i32(); sp["model"] = r.i32()
    _dec_geom(r, sp)
    sp["map"] = r.arr("<i2", (n,))
    sp["cams"] = []
    for _ in range(n):
        c = {"R": r.arr("<f8", (3, 3)), "T": r.arr("<f8", (3,)), "focus": r.arr("<f8", (2,)),
             "center": r.arr("<f8", (2,))}
        if fmt == 1:
            c["radial"] = r.arr("<f8", (2,)); c["decentering"] = r.arr("<f8", (2,)); c["thin"] = r.arr("<f8", (2,))
        else:
            c["xd"] = r.arr("<f8", (70,)); c["yd"] = r.arr("<f8", (70,))
        c["origin"] = r.arr("<i4", (2,)); c["size"] = r.arr("<i4", (2,))
        sp["cams"].append(c)
    return sp


def enc_optical(w, sp):
    if sp["format"] != 1:
        raise LayoutError("optical format")
    w.i32(len(sp["channels"])); w.pad_dc(4)
    for c in sp["channels"]:
        w.i32(c["index"]); w.pad_dc(4)
        w.S(32, c["lens"]); w.S(32, c["ctype"]); w.S(32, c["name"])
        w.arr(c["origin"], "<i4", (2,)); w.arr(c["size"], "<i4", (2,))


def dec_optical(r, fmt):
    if fmt != 1:
        raise LayoutError("optical format")
    sp = {"type": T_OPT, "format": fmt}
    n = r.i32(); r.skip_dc(4)
    sp["channels"] = []
    for _ in range(n):
        c = {"index": r.i32()}
        r.skip_dc(4)
        c["lens"] = r.S(32); c["ctype"] = r.S(32); c["name"] = r.S(32)
        c["origin"] = r.arr("<i4", (2,)); c["size"] = r.arr("<i4", (2,))
        sp["channels"].append(c)
    return sp


def enc_events(w, sp):
    if sp["format"] != 1:
        raise LayoutError("events format")
    w.i32(len(sp["events"])); w.f32(sp["startTime"])
    for e in sp["events"]:
        w.S(256, e["label"]); w.u32(e["etype"])
        vals = np.asarray(e["values"], "<f4").reshape(-1)
        w.i32(len(vals)); w.arr(vals, "<f4")


def dec_events(r, fmt):
    if fmt != 1:
        raise LayoutError("events format")
    sp = {"type": T_EVENTS, "format": fmt}
    n = r.i32(); sp["startTime"] = r.f32()
    sp["events"] = []
    for _ in range(n):
        label = r.S(256); et = r.u32(); k = r.i32()
        sp["events"].append({"label": label, "etype": et, "values": r.arr("<f4", (k,))})
    return sp


_ENC = {T_DATA3D: enc_data3d, T_EMG: enc_emg, T_FORCE3D: enc_force3d, T_PLATDATA: enc_platdata,
        T_PLATCAL: enc_platcal, T_DATA2D: enc_data2d, T_CALIB: enc_calib, T_OPT: enc_optical,
        T_EVENTS: enc_events}
_DEC = {T_DATA3D: dec_data3d, T_EMG: dec_emg, T_FORCE3D: dec_force3d, T_PLATDATA: dec_platdata,
        T_PLATCAL: dec_platcal, T_DATA2D: dec_data2d, T_CALIB: dec_calib, T_OPT: dec_optical,
        T_EVENTS: dec_events}


def encode_block(spec, junk=None, want_dc=False, full_ok=False, inf_is_value=False):
    w = W(junk)
    w.full_ok = full_ok
    w.inf_is_value = inf_is_value
    _ENC[spec["type"]](w, spec)
    return (bytes(w.b), list(w.dc)) if want_dc else bytes(w.b)


def decode_block(btype, fmt, data, pos=0):
    """-> (spec, bytes consumed, don't-care ranges relative to pos)."""
    r = R(data, pos)
    sp = _DEC[btype](r, fmt)
    return sp, r.p - pos, [(a - pos, b - pos) for a, b in r.dc]


# --------------------------------------------------------------------------- container
def parse_entry(raw, base=0):
    if len(raw) != ENTRY:
        raise LayoutError("short entry")
    t, f, off, size, c, m, a = struct.unpack("<IIiiiii", raw[:28])
    craw = raw[32:288]
    i = craw.find(b"\0")
    return {"type": t, "format": f, "offset": off, "size": size, "ctime": c, "mtime": m, "atime": a,
            "pad": raw[28:32], "comment_raw": craw, "comment": cp_decode(field_text(craw)),
            "dc": [(base + 28, base + 32)] + ([(base + 32 + i + 1, base + 288)] if 0 <= i < 255 else [])}


def parse_file(data):
    """Independent reader of header + jump table.  Raises LayoutError if not a TDF."""
    if len(data) < HEADER or data[:16] != SIGNATURE:
        raise LayoutError("bad signature")
    version, n = struct.unpack("<Ii", data[16:24])
    c, m, a = struct.unpack("<iii", data[32:44])
    if n < 0 or HEADER + ENTRY * n > len(data):
        raise LayoutError(f"table of {n} entries does not fit in {len(data)} bytes")
    entries = [parse_entry(data[HEADER + ENTRY * i: HEADER + ENTRY * (i + 1)], HEADER + ENTRY * i)
               for i in range(n)]
    return {"version": version, "n": n, "ctime": c, "mtime": m, "atime": a,
            "reserved1": data[24:32], "reserved2": data[44:64], "entries": entries, "length": len(data),
            "dc": [(24, 32), (44, 64)] + [r for e in entries for r in e["dc"]]}


def build_entry(t, f, off, size, ctime, mtime, atime, comment, junk=None, comment_raw=None):
    w = W(junk)
    w.u32(t); w.u32(f); w.i32(off); w.i32(size); w.i32(ctime); w.i32(mtime); w.i32(atime)
    w.pad_dc(4)
    if comment_raw is not None:      # other software may fill all 256 bytes without a terminator
        if len(comment_raw) != 256:
            raise LayoutError("raw comment must be 256 bytes")
        w.raw(comment_raw)
    else:
        w.S(256, comment)
    return bytes(w.b)


def build_file(n, live, *, version=1, hdr_times=(1000000000, 1000000001, 1000000002),
               unused_times=(1000000003, 1000000004, 1000000005), unused_comment="",
               junk=None, hole_at=None, gap=0):
    """A compact, well-formed file: `live` = list of dicts(type, format, payload, comment,
    ctime, mtime, atime).  hole_at=i inserts an unused slot before live block i (C07)."""
    w = W(junk)
    w.raw(SIGNATURE); w.u32(version); w.i32(n); w.pad_dc(8)
    for t in hdr_times:
        w.i32(t)
    w.pad_dc(20)
    slots = list(live)
    if hole_at is not None:
        slots.insert(hole_at, None)
    if len(slots) > n:
        raise LayoutError("more blocks than slots")
    off = HEADER + ENTRY * n
    out = bytearray(w.b)
    body = bytearray()
    for s in slots:
        if s is None:
            out += build_entry(0, 0, off, 0, *unused_times, unused_comment, junk)
        else:
            if gap:   # other software may leave unused bytes between blocks (still well-formed: ranges disjoint, inside the file)
                body += bytes((0xA0 + i) % 256 for i in range(gap))
                off += gap
            out += build_entry(s["type"], s["format"], off, len(s["payload"]), s["ctime"], s["mtime"],
                               s["atime"], s["comment"], junk, s.get("comment_raw"))
            body += s["payload"]
            off += len(s["payload"])
    for _ in range(n - len(slots)):
        out += build_entry(0, 0, off, 0, *unused_times, unused_comment, junk)
    return bytes(out + body)


def payload(data, e):
    return data[e["offset"]: e["offset"] + e["size"]]
