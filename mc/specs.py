"""Bridge between neutral specs (mc.tdfref) and library objects.

build(spec)   -> library block, through public constructors / mutators only
extract(obj)  -> spec, through public attributes / iteration only (a handful of private
                 names are read *if present* for fields that have no accessor)
lib_encode / lib_decode run the real codec on BytesIO.
"""
import io

import numpy as np

from . import tdfref as R


def L():
    """Late import of the library modules (after env.setup())."""
    import basictdf.basictdf as m_tdf
    import basictdf.tdfBlock as m_block
    import basictdf.tdfCalibrationData as m_cal
    import basictdf.tdfData2D as m_2d
    import basictdf.tdfData3D as m_3d
    import basictdf.tdfEMG as m_emg
    import basictdf.tdfEvents as m_ev
    import basictdf.tdfForce3D as m_f3
    import basictdf.tdfForcePlatformsCalibration as m_pc
    import basictdf.tdfForcePlatformsData as m_pd
    import basictdf.tdfOpticalSystem as m_opt
    import basictdf.tdfTypes as m_types

    class NS:
        pass

    ns = NS()
    ns.tdf, ns.block, ns.cal, ns.d2, ns.d3, ns.emg, ns.ev, ns.f3, ns.pc, ns.pd, ns.opt, ns.types = (
        m_tdf, m_block, m_cal, m_2d, m_3d, m_emg, m_ev, m_f3, m_pc, m_pd, m_opt, m_types)
    return ns


_ns = None


def lib():
    global _ns
    if _ns is None:
        _ns = L()
    return _ns


def block_class(t):
    n = lib()
    return {R.T_DATA3D: n.d3.Data3D, R.T_EMG: n.emg.EMG, R.T_FORCE3D: n.f3.ForceTorque3D,
            R.T_PLATDATA: n.pd.ForcePlatformsDataBlock, R.T_PLATCAL: n.pc.ForcePlatformsCalibrationDataBlock,
            R.T_DATA2D: n.d2.Data2D, R.T_CALIB: n.cal.CalibrationDataBlock, R.T_OPT: n.opt.OpticalSetupBlock,
            R.T_EVENTS: n.ev.TemporalEventsData}[t]


def format_enum(t):
    n = lib()
    return {R.T_DATA3D: n.d3.Data3dBlockFormat, R.T_EMG: n.emg.EMGBlockFormat,
            R.T_FORCE3D: n.f3.ForceTorque3DBlockFormat, R.T_PLATDATA: n.pd.ForcePlatformBlockFormat,
            R.T_PLATCAL: n.pc.ForcePlatformCalibrationBlockFormat, R.T_DATA2D: n.d2.Data2DBlockFormat,
            R.T_CALIB: n.cal.CalibrationDataBlockFormat, R.T_OPT: n.opt.OpticalSetupBlockFormat,
            R.T_EVENTS: n.ev.TemporalEventsDataFormat}[t]


MEM_LAYOUTS = ("fortran", "bigendian", "strided", "readonly")


def _mem(a, dtype, mem):
    """In-memory representation handed to the library: on-disk dtype (C order, little endian), float64,
    or the same values in another memory layout (column-major, big-endian, a strided view into a
    larger buffer, a read-only array) - the values are the same, so must be everything stored."""
    a = np.array(a, dtype=dtype)
    if mem == "f8" and a.dtype.kind == "f":
        return a.astype(np.float64)
    if mem == "fortran":
        return np.asfortranarray(a)
    if mem == "bigendian":
        return a.astype(a.dtype.newbyteorder(">"))
    if mem == "strided" and a.ndim >= 1 and a.shape[0] >= 1:
        big = np.full((2 * a.shape[0],) + a.shape[1:], 7777, dtype=a.dtype)
        big[::2] = a
        return big[::2]
    if mem == "readonly":
        a.setflags(write=False)
    return a


def _scalar(v, mem):
    """Header scalars are handed over as Python numbers (what README examples do)."""
    if isinstance(v, (np.floating,)):
        return float(v)
    if isinstance(v, (np.integer,)):
        return int(v)
    return v


def viewport(origin, size, how="array"):
    n = lib()
    if how == "array":
        return n.types.CameraViewPort(np.array(origin, "<i4"), np.array(size, "<i4"))
    if how == "list":
        return n.types.CameraViewPort([int(x) for x in origin], [int(x) for x in size])
    if how == "tuple":
        return n.types.CameraViewPort(tuple(int(x) for x in origin), tuple(int(x) for x in size))
    if how == "2x2":
        return np.array([origin, size], "<i4")
    raise ValueError(how)


# ----------------------------------------------------------------------------- items
def build_item(t, item, sp, mem="disk", vp="array"):
    """One nested item (track / signal / platform / camera / channel / event)."""
    n = lib()
    if t == R.T_DATA3D:
        return n.d3.MarkerTrack(item["label"], _mem(item["data"], "<f4", mem))
    if t == R.T_EMG:
        return n.emg.EMGTrack(item["label"], _mem(item["data"], "<f4", mem))
    if t == R.T_FORCE3D:
        return n.f3.ForceTorqueTrack(item["label"], _mem(item["ap"], "<f4", mem),
                                     _mem(item["force"], "<f4", mem), _mem(item["torque"], "<f4", mem))
    if t == R.T_PLATDATA:
        return n.pd.ForcePlatformData(_mem(item["ap"], "<f4", mem), _mem(item["force"], "<f4", mem),
                                      _mem(item["torque"], "<f4", mem))
    if t == R.T_PLATCAL:
        return n.pc.ForcePlatformInfo(item["label"], _mem(item["size"], "<f4", mem),
                                      _mem(item["position"], "<f4", mem))
    if t == R.T_CALIB:
        v = viewport(item["origin"], item["size"], vp)
        if sp["format"] == 1:
            return n.cal.SeelabCameraData(
                _mem(item["R"], "<f8", mem), _mem(item["T"], "<f8", mem), _mem(item["focus"], "<f8", mem),
                _mem(item["center"], "<f8", mem), _mem(item["radial"], "<f8", mem),
                _mem(item["decentering"], "<f8", mem), _mem(item["thin"], "<f8", mem), v)
        return n.cal.BTSCameraData(
            _mem(item["R"], "<f8", mem), _mem(item["T"], "<f8", mem), _mem(item["focus"], "<f8", mem),
            _mem(item["center"], "<f8", mem), _mem(item["xd"], "<f8", mem), _mem(item["yd"], "<f8", mem), v)
    if t == R.T_OPT:
        return n.opt.OpticalChannelData(int(item["index"]), item["lens"], item["ctype"], item["name"],
                                        viewport(item["origin"], item["size"], vp))
    if t == R.T_EVENTS:
        vals = item["values"]
        vals = [float(x) for x in np.asarray(vals, "<f4")] if mem == "f8" else _mem(vals, "<f4", mem)
        return n.ev.Event(item["label"], vals, n.ev.EventsDataType(item["etype"]))
    raise ValueError(t)


VIA = ("setter-list", "setter-tuple", "setter-gen")


def _install(b, attr, items, via):
    """Hand a whole item collection to the block through its list property, in the given container form."""
    if via == "setter-list":
        setattr(b, attr, list(items))
    elif via == "setter-tuple":
        setattr(b, attr, tuple(items))
    elif via == "setter-gen":
        setattr(b, attr, (x for x in list(items)))
    else:
        raise ValueError(via)


def build(sp, mem="disk", vp="array", links_as="list", via="add"):
    n = lib()
    t = sp["type"]
    fmt = format_enum(t)(sp["format"])
    sc = lambda k: _scalar(sp[k], mem)  # noqa: E731
    if t == R.T_DATA3D:
        b = n.d3.Data3D(sc("frequency"), sc("nFrames"), _mem(sp["vol"], "<f4", mem), _mem(sp["rot"], "<f4", mem),
                        _mem(sp["trans"], "<f4", mem), sc("startTime"), n.d3.Flags(sp["flags"]), fmt)
        if sp["format"] == 1 and sp.get("links") is not None and links_as != "absent":
            if links_as == "list":
                b.links = [(int(a), int(c)) for a, c in sp["links"]]
            else:
                b.links = np.array([(int(a), int(c)) for a, c in sp["links"]],
                                   dtype=[("Track1", "<u4"), ("Track2", "<u4")])
        if via != "add":
            _install(b, "tracks", [build_item(t, tr, sp, mem) for tr in sp["tracks"]], via)
            return b
        for tr in sp["tracks"]:
            b.add_track(build_item(t, tr, sp, mem))
        return b
    if t == R.T_EMG:
        b = n.emg.EMG(sc("frequency"), sc("nSamples"), sc("startTime"), fmt)
        for ch, it in sp["items"]:
            b.addSignal(build_item(t, it, sp, mem), channel=int(ch))
        return b
    if t == R.T_FORCE3D:
        b = n.f3.ForceTorque3D(sc("frequency"), sc("nFrames"), _mem(sp["vol"], "<f4", mem),
                               _mem(sp["rot"], "<f4", mem), _mem(sp["trans"], "<f4", mem), sc("startTime"), fmt)
        if via != "add":
            _install(b, "tracks", [build_item(t, tr, sp, mem) for tr in sp["tracks"]], via)
            return b
        for tr in sp["tracks"]:
            b.add_track(build_item(t, tr, sp, mem))
        return b
    if t == R.T_PLATDATA:
        b = n.pd.ForcePlatformsDataBlock(sc("startTime"), sc("frequency"), sc("nFrames"), fmt)
        for ch, it in sp["items"]:
            b.add_platform(build_item(t, it, sp, mem), int(ch))
        return b
    if t == R.T_PLATCAL:
        b = n.pc.ForcePlatformsCalibrationDataBlock(format=fmt)
        if via != "add":
            _install(b, "platforms", [(int(ch), build_item(t, it, sp, mem)) for ch, it in sp["items"]], via)
            return b
        for ch, it in sp["items"]:
            b.add_platform(build_item(t, it, sp, mem), int(ch))
        return b
    if t == R.T_DATA2D:
        b = n.d2.Data2D(sc("nCams"), sc("nFrames"), sc("frequency"), sc("startTime"),
                        n.d2.Data2DFlags(sp["flags"]), fmt)
        cells = np.empty((sp["nFrames"], sp["nCams"]), dtype=object)
        for fr in range(sp["nFrames"]):
            for c in range(sp["nCams"]):
                v = sp["cells"][fr][c]
                cells[fr, c] = None if v is None else _mem(v, "<f4", mem)
        b.data = cells
        b._camMap = [int(x) for x in sp["map"]]  # no public setter; same as the repo's own test
        return b
    if t == R.T_CALIB:
        cams = [build_item(t, c, sp, mem, vp) for c in sp["cams"]]
        return n.cal.CalibrationDataBlock(n.cal.DistorsionModel(sp["model"]), _mem(sp["vol"], "<f4", mem),
                                          _mem(sp["rot"], "<f4", mem), _mem(sp["trans"], "<f4", mem),
                                          np.array(sp["map"], "<i2"), cams, fmt)
    if t == R.T_OPT:
        return n.opt.OpticalSetupBlock(format=fmt, channels=[build_item(t, c, sp, mem, vp) for c in sp["channels"]])
    if t == R.T_EVENTS:
        b = n.ev.TemporalEventsData(fmt, sc("startTime"))
        for e in sp["events"]:
            b.events.append(build_item(t, e, sp, mem))
        return b
    raise ValueError(t)


# ----------------------------------------------------------------------------- extraction
def _f4(a, shape=None):
    a = np.asarray(a)
    if a.dtype.kind not in "fiu":
        raise TypeError(f"non numeric field {a.dtype}")
    a = a.astype("<f4")
    return a if shape is None else a.reshape(shape)


def _enumval(v):
    return int(getattr(v, "value", v))


def _vp(v):
    return np.asarray(v.origin).astype("<i4").reshape(2), np.asarray(v.size).astype("<i4").reshape(2)


def extract(obj):
    """Public-attribute view of a library block as a spec."""
    n = lib()
    t = obj.type.value
    sp = {"type": t, "format": _enumval(obj.format)}
    if t == R.T_DATA3D:
        sp.update(nFrames=int(obj.nFrames), frequency=int(obj.frequency), startTime=np.float32(obj.startTime),
                  vol=_f4(obj.volume, (3,)), rot=_f4(obj.rotationMatrix, (3, 3)),
                  trans=_f4(obj.translationVector, (3,)), flags=_enumval(obj.flag))
        if sp["format"] == 1:
            links = getattr(obj, "links", [])
            sp["links"] = [(int(l[0]), int(l[1])) for l in links]
        sp["tracks"] = [{"label": tr.label, "data": _f4(tr.data, (sp["nFrames"], 3))} for tr in obj]
        if len(obj.tracks) != len(sp["tracks"]):
            raise AssertionError("tracks property and iteration disagree")
    elif t == R.T_EMG:
        sp.update(frequency=int(obj.frequency), startTime=np.float32(obj.startTime), nSamples=int(obj.nSamples))
        sigs = list(obj)
        chans = list(getattr(obj, "_emgMap", [None] * len(sigs)))
        if len(chans) != len(sigs):
            raise AssertionError(f"EMG channel map has {len(chans)} entries for {len(sigs)} signals")
        sp["items"] = [(None if c is None else int(c), {"label": s.label, "data": _f4(s.data, (sp["nSamples"],))})
                       for c, s in zip(chans, sigs)]
    elif t == R.T_FORCE3D:
        sp.update(nFrames=int(obj.nFrames), frequency=int(obj.frequency), startTime=np.float32(obj.startTime),
                  vol=_f4(obj.volume, (3,)), rot=_f4(obj.rotationMatrix, (3, 3)),
                  trans=_f4(obj.translationVector, (3,)))
        nf = sp["nFrames"]
        sp["tracks"] = [{"label": tr.label, "ap": _f4(tr.application_point, (nf, 3)),
                         "force": _f4(tr.force, (nf, 3)), "torque": _f4(tr.torque, (nf, 3))} for tr in obj]
    elif t == R.T_PLATDATA:
        sp.update(nFrames=int(obj.n_frames), frequency=int(obj.frequency), startTime=np.float32(obj.start_time))
        nf = sp["nFrames"]
        sp["items"] = [(int(c), {"ap": _f4(p.application_point, (nf, 2)), "force": _f4(p.force, (nf, 3)),
                                 "torque": _f4(p.torque, (nf,))}) for c, p in obj]
        if len(list(obj.platforms)) != len(sp["items"]):
            raise AssertionError("platforms property and iteration disagree")
    elif t == R.T_PLATCAL:
        sp["items"] = [(int(c), {"label": p.label, "size": _f4(p.size, (2,)), "position": _f4(p.position, (4, 3))})
                       for c, p in obj.platforms]
    elif t == R.T_DATA2D:
        sp.update(nCams=int(obj.nCams), nFrames=int(obj.nFrames), frequency=int(obj.frequency),
                  startTime=np.float32(obj.startTime), flags=_enumval(obj.flags))
        cm = getattr(obj, "_camMap", None)
        sp["map"] = None if cm is None else np.asarray(cm).astype("<u2").reshape(-1)
        data = obj.data
        cells = []
        for fr in range(sp["nFrames"]):
            row = []
            for c in range(sp["nCams"]):
                v = data[fr, c]
                row.append(None if v is None or len(v) == 0 else _f4(v, (-1, 2)))
            cells.append(row)
        sp["cells"] = cells
    elif t == R.T_CALIB:
        sp.update(model=int(obj.distorsion_model), vol=_f4(obj.calibration_volume_size, (3,)),
                  rot=_f4(obj.calibration_volume_rotation_matrix, (3, 3)),
                  trans=_f4(obj.calibration_volume_translation_vector, (3,)),
                  map=np.asarray(obj.cameras_calibration_map).astype("<i2").reshape(-1))
        cams = []
        for c in obj.cam_data:
            d = {"R": np.asarray(c.rotation_matrix, "<f8").reshape(3, 3),
                 "T": np.asarray(c.translation_vector, "<f8").reshape(3),
                 "focus": np.asarray(c.focus, "<f8").reshape(2),
                 "center": np.asarray(c.optical_center, "<f8").reshape(2)}
            if sp["format"] == 1:
                d["radial"] = np.asarray(c.radial_distortion, "<f8").reshape(2)
                d["decentering"] = np.asarray(c.decentering, "<f8").reshape(2)
                d["thin"] = np.asarray(c.thin_prism, "<f8").reshape(2)
            else:
                d["xd"] = np.asarray(c.x_distortion_coefficients, "<f8").reshape(70)
                d["yd"] = np.asarray(c.y_distortion_coefficients, "<f8").reshape(70)
            d["origin"], d["size"] = _vp(c.view_port)
            cams.append(d)
        sp["cams"] = cams
    elif t == R.T_OPT:
        chs = []
        for c in obj:
            o, s = _vp(c.camera_viewport)
            chs.append({"index": int(c.logical_camera_index), "lens": c.lens_name, "ctype": c.camera_type,
                        "name": c.camera_name, "origin": o, "size": s})
        sp["channels"] = chs
        if len(obj.channels) != len(chs):
            raise AssertionError("channels attribute and iteration disagree")
    elif t == R.T_EVENTS:
        sp["startTime"] = np.float32(obj.start_time)
        sp["events"] = [{"label": e.label, "etype": _enumval(e.type), "values": _f4(e.values, (-1,))} for e in obj]
        if len(obj.events) != len(sp["events"]):
            raise AssertionError("events attribute and iteration disagree")
    else:
        raise ValueError(t)
    return sp


# ----------------------------------------------------------------------------- comparisons
def _bits(a):
    a = np.ascontiguousarray(a)
    return a.view({4: "<u4", 8: "<u8", 2: "<u2", 1: "u1"}[a.dtype.itemsize]) if a.dtype.kind == "f" else a


def arr_equal(a, b):
    """Bit-for-bit at on-disk width; NaN matches NaN regardless of payload (gaps)."""
    a = np.asarray(a)
    b = np.asarray(b)
    if a.shape != b.shape or a.dtype.itemsize != b.dtype.itemsize or a.dtype.kind != b.dtype.kind:
        return False
    if a.dtype.kind == "f":
        na, nb = np.isnan(a), np.isnan(b)
        if not np.array_equal(na, nb):
            return False
        return bool(np.array_equal(_bits(a)[~na], _bits(b)[~nb]))
    return bool(np.array_equal(a, b))


def diff(a, b, path=""):
    """First difference between two specs (None if equal).  'segs' keys (decoder by-product)
    and None channel entries (no accessor) are ignored."""
    if isinstance(a, dict) and isinstance(b, dict):
        ka = {k for k in a if k != "segs"}
        kb = {k for k in b if k != "segs"}
        if ka != kb:
            return f"{path}: keys {sorted(ka ^ kb)}"
        for k in sorted(ka):
            d = diff(a[k], b[k], f"{path}.{k}")
            if d:
                return d
        return None
    if isinstance(a, (list, tuple)) and isinstance(b, (list, tuple)):
        if len(a) != len(b):
            return f"{path}: length {len(a)} vs {len(b)}"
        for i, (x, y) in enumerate(zip(a, b)):
            d = diff(x, y, f"{path}[{i}]")
            if d:
                return d
        return None
    if a is None or b is None:
        if path.endswith(".map") or path.endswith("[0]"):
            return None  # field without public accessor on one side
        return None if a is b else f"{path}: {a!r} vs {b!r}"
    if isinstance(a, np.ndarray) or isinstance(b, np.ndarray):
        return None if arr_equal(np.asarray(a), np.asarray(b)) else f"{path}: arrays differ"
    if isinstance(a, (float, np.floating)) or isinstance(b, (float, np.floating)):
        return None if arr_equal(np.asarray(a, "<f4"), np.asarray(b, "<f4")) else f"{path}: {a!r} vs {b!r}"
    return None if a == b else f"{path}: {a!r} vs {b!r}"


# ----------------------------------------------------------------------------- real codec
def lib_encode(obj):
    buf = io.BytesIO()
    obj._write(buf)
    return buf.getvalue()


def lib_decode(t, fmt, data, sentinel=b"", poison=0x5A):
    """Decode with the real decoder; returns (block, stream position afterwards).  Always runs
    under a fixed allocator poison so that no observation depends on what fresh memory holds."""
    from . import env

    buf = io.BytesIO(data + sentinel)
    if poison is None:
        blk = block_class(t)._build(buf, fmt)
    else:
        with env.poisoned_allocator(poison):
            blk = block_class(t)._build(buf, fmt)
    return blk, buf.tell()


def jsonable(x, maxlen=12):
    """Compact JSON-safe rendering of a spec / history for evidence samples and replays."""
    if isinstance(x, dict):
        return {str(k): jsonable(v, maxlen) for k, v in x.items() if k != "segs"}
    if isinstance(x, (list, tuple)):
        return [jsonable(v, maxlen) for v in x]
    if isinstance(x, np.ndarray):
        flat = x.reshape(-1)
        vals = [None if (x.dtype.kind == "f" and np.isnan(v)) else (float(v) if x.dtype.kind == "f" else int(v))
                for v in flat[:maxlen]]
        return {"shape": list(x.shape), "dtype": str(x.dtype), "head": vals}
    if isinstance(x, (np.floating,)):
        return None if np.isnan(x) else float(x)
    if isinstance(x, (np.integer,)):
        return int(x)
    if isinstance(x, bytes):
        return x.hex() if len(x) <= 64 else x[:64].hex() + "..."
    if isinstance(x, float) and x != x:
        return None
    return x


# ----------------------------------------------------------------------------- (de)serialisation
def dump(x):
    """Lossless JSON form of a spec (arrays as dtype/shape/hex)."""
    if isinstance(x, dict):
        return {"__d__": [[dump(k), dump(v)] for k, v in x.items() if k != "segs"]}
    if isinstance(x, tuple):
        return {"__t__": [dump(v) for v in x]}
    if isinstance(x, list):
        return [dump(v) for v in x]
    if isinstance(x, np.ndarray):
        return {"__nd__": [x.dtype.str, list(x.shape), np.ascontiguousarray(x).tobytes().hex()]}
    if isinstance(x, np.generic):
        return {"__ns__": [x.dtype.str, x.tobytes().hex()]}
    if isinstance(x, bytes):
        return {"__b__": x.hex()}
    return x


def load(x):
    if isinstance(x, list):
        return [load(v) for v in x]
    if isinstance(x, dict):
        if "__d__" in x:
            return {load(k): load(v) for k, v in x["__d__"]}
        if "__t__" in x:
            return tuple(load(v) for v in x["__t__"])
        if "__nd__" in x:
            dt, shape, hx = x["__nd__"]
            return np.frombuffer(bytes.fromhex(hx), dtype=np.dtype(dt)).reshape(shape).copy()
        if "__ns__" in x:
            dt, hx = x["__ns__"]
            return np.frombuffer(bytes.fromhex(hx), dtype=np.dtype(dt))[0]
        if "__b__" in x:
            return bytes.fromhex(x["__b__"])
        return {k: load(v) for k, v in x.items()}
    return x
