"""Edit-after-observe histories on ONE live block object.

State-space mode on block objects: start from a block (built through the constructors, or
decoded from bytes), then alternate *observations* (nBytes, encode, ==) and *in-place edits*
through public attributes (open / fill a gap at a frame, change a sample, change a label,
assign a Data2D cell, append / pop an event or channel ...).  The reference model is the spec,
edited in lock step.  Oracle after every step: the block that lived through the history is
indistinguishable from a block built fresh from the model - the clause each property needs:

  C01 roundtrip   decode(encode(b)) == model, re-encode identical
  C02 size        b.nBytes == len(encode(b))
  C05 gaps        run table parsed from encode(b) covers exactly the model's present frames
  C06 layout      encode(b) == reference-encode(model)
  C14 equality    b == fresh(model), and b != fresh(model before the last edit)

This is what finds state cached on first use and not invalidated by a later edit - invisible
to any check that builds a fresh object per input."""
import copy

import numpy as np

from . import core, gen, ohist, specs
from . import tdfref as R

T, F = True, False
NF = 3
CLAUSES = {"C01": ("roundtrip",), "C02": ("size",), "C05": ("gaps",), "C06": ("layout",), "C14": ("equality",)}
RLE_FIELDS = {R.T_DATA3D: ("data",), R.T_EMG: ("data",), R.T_FORCE3D: ("ap", "force", "torque"),
              R.T_PLATDATA: ("ap", "force", "torque")}
LIB_FIELDS = {R.T_DATA3D: ("data",), R.T_EMG: ("data",), R.T_FORCE3D: ("application_point", "force", "torque"),
              R.T_PLATDATA: ("application_point", "force", "torque")}


def start_spec(t):
    g = gen
    if t in gen.RLE_TYPES:
        return g.rle_block(t, NF, [(T, F, T), (T, T, T)], chans=[4, 1])
    if t == R.T_DATA2D:
        return g.data2d(2, 2, g.cells_grid(2, 2, (1, 0, 2, 1)))
    if t == R.T_EVENTS:
        return g.events([g.mk_event("a", 1, 2), g.mk_event("b", 0, 1, 3)])
    if t == R.T_PLATCAL:
        return g.platcal([(1, g.mk_platinfo("p", 1)), (0, g.mk_platinfo("q", 2))])
    if t == R.T_OPT:
        return g.optical([g.mk_chan(0), g.mk_chan(1)])
    if t == R.T_CALIB:
        return g.calib(1, [g.mk_cam(1, 1), g.mk_cam(1, 2)])
    raise ValueError(t)


def poke(obj, attr, index, value):
    """In-place edit of obj.<attr>[index]; decoded arrays may be read-only views of the input
    buffer, in which case the attribute is re-assigned with an edited copy."""
    arr = getattr(obj, attr)
    if isinstance(arr, np.ndarray) and not arr.flags.writeable:
        arr = arr.copy()
        arr[index] = value
        setattr(obj, attr, arr)
    else:
        arr[index] = value


def lib_items(b, t):
    if t == R.T_PLATDATA:
        return [p for _, p in b]
    if t == R.T_PLATCAL:
        return [p for _, p in b.platforms]
    if t == R.T_CALIB:
        return list(b.cam_data)
    if t == R.T_OPT:
        return list(b.channels)
    if t == R.T_EVENTS:
        return list(b.events)
    return list(b)


def spec_items(sp):
    for k in ("tracks", "items", "cams", "channels", "events"):
        if k in sp:
            return [it[1] if isinstance(it, tuple) else it for it in sp[k]]
    return []


class EditMachine(ohist.Machine):
    init_in_key = True

    def __init__(self, t, clauses):
        self.t = t
        self.clauses = clauses
        self.name = R.NAMES[t]

    def V(self, prop_clause, clause, detail, extra=""):
        prop = next(p for p, cs in CLAUSES.items() if prop_clause in cs)
        return core.Violation(clause, f"{prop}:{self.name}:edit-history:{clause}{(':' + extra) if extra else ''}", None, detail)

    def initial(self):
        t = self.t

        def built():
            sp = start_spec(t)
            return self._observed(specs.build(sp)), {"spec": sp, "prev": None}

        def decoded():
            sp = start_spec(t)
            try:
                b = specs.lib_decode(t, sp["format"], R.encode_block(sp))[0]
            except Exception as e:  # noqa: BLE001
                raise self.V(self.clauses[0], "conformant-bytes-refused", f"{gen.spec_label(sp)}: {type(e).__name__}: {e}")
            return self._observed(b), {"spec": sp, "prev": None}

        return [("built", built), ("decoded", decoded)]

    def _observed(self, b):
        """Every state is observed (this is what fills caches): size, bytes, self-equality."""
        try:
            b.nBytes
            specs.lib_encode(b)
            b == b  # noqa: B015
        except Exception:  # noqa: BLE001 - judged in observe()
            pass
        return b

    # ---- alphabet
    def ops(self, model):
        sp = model["spec"]
        t = self.t
        out = []
        items = spec_items(sp)
        if t in gen.RLE_TYPES:
            for i in range(len(items)):
                present = self._present(sp, i)
                for f in range(len(present)):
                    out.append(("gap" if present[f] else "fill", i, f))
                if present.any():
                    out.append(("value", i))
                if t != R.T_PLATDATA:
                    out.append(("label", i))
            if t == R.T_DATA3D:
                out.append(("setX", 0))
        elif t == R.T_DATA2D:
            for fr in range(sp["nFrames"]):
                for c in range(sp["nCams"]):
                    out.append(("cell_none" if sp["cells"][fr][c] is not None else "cell_points", fr, c))
            out.append(("cell_grow", 0, 0))
        elif t == R.T_EVENTS:
            out += [("label", 0), ("value", 0), ("ev_append",)]
            seq = next((i for i, e in enumerate(items) if e["etype"] == 1), None)
            if seq is not None:
                out += [("values_list", seq), ("values_f8", seq)]
            if len(items) > 1:
                out.append(("ev_pop",))
        elif t == R.T_PLATCAL:
            out += [("label", 0), ("label", 1), ("value", 0)]
        elif t == R.T_OPT:
            out += [("label", 0), ("value", len(items) - 1), ("ch_append",)]
            if len(items) > 1:
                out.append(("ch_pop",))
        elif t == R.T_CALIB:
            out += [("value", 0), ("value", 1), ("map", 0)]
        # requests the block must refuse: afterwards it has to be exactly what it was
        if t in (R.T_DATA3D, R.T_FORCE3D):
            out += [("refuse", "add-wrong-length"), ("refuse", "assign-good-then-bad")]
        elif t == R.T_EMG:
            out += [("refuse", "add-wrong-length"), ("refuse", "add-taken-channel"), ("refuse", "add-wrong-length-explicit-channel")]
        elif t == R.T_PLATDATA:
            out += [("refuse", "add-taken-channel"), ("refuse", "assign-good-then-bad")]
        elif t == R.T_PLATCAL:
            out += [("refuse", "add-taken-channel"), ("refuse", "assign-duplicate-channel"), ("refuse", "bulk-add-good-then-bad")]
        return out

    def describe(self, op):
        return f"{op[0]}({', '.join(map(str, op[1:]))})"

    def _present(self, sp, i):
        it = spec_items(sp)[i]
        f = RLE_FIELDS[self.t]
        n = len(np.asarray(it[f[0]]))
        return R.present_rows(*[np.asarray(it[k]).reshape(n, -1) for k in f])

    # ---- transition: the same edit on the live object (public attributes) and on the model
    def step(self, b, model, op):
        t = self.t
        sp = copy.deepcopy(model["spec"])
        prev = model["spec"]
        items_l = lib_items(b, t)
        items_s = spec_items(sp)
        kind = op[0]
        try:
            if kind in ("gap", "fill"):
                i, f = op[1], op[2]
                for ks, kl in zip(RLE_FIELDS[t], LIB_FIELDS[t]):
                    arr_s = items_s[i][ks]
                    arr_l = getattr(items_l[i], kl)
                    if kind == "gap":
                        arr_s[f] = np.nan
                        poke(items_l[i], kl, f, np.nan)
                    else:
                        val = np.float32(7.25 + f + 10 * i)
                        arr_s[f] = val
                        poke(items_l[i], kl, f, val)
            elif kind == "value" and t in gen.RLE_TYPES:
                i = op[1]
                f = int(np.argmax(self._present(prev, i)))
                ks, kl = RLE_FIELDS[t][0], LIB_FIELDS[t][0]
                a_s, a_l = items_s[i][ks], getattr(items_l[i], kl)
                if a_s.ndim == 1:
                    a_s[f] = a_s[f] * 2 + 4
                    poke(items_l[i], kl, f, a_s[f])
                else:
                    a_s[f, 0] = a_s[f, 0] * 2 + 4
                    poke(items_l[i], kl, (f, 0), a_s[f, 0])
            elif kind == "setX":
                tr_s, tr_l = items_s[0], items_l[0]
                tr_s["data"][:, 0] = tr_s["data"][:, 0] + 2
                tr_l.X = tr_l.X + 2
            elif kind == "label":
                i = op[1]
                key_s, key_l = {R.T_OPT: ("name", "camera_name")}.get(t, ("label", "label"))
                items_s[i][key_s] = items_s[i][key_s] + "x"
                setattr(items_l[i], key_l, getattr(items_l[i], key_l) + "x")
            elif kind == "value":
                i = op[1]
                if t == R.T_EVENTS:
                    items_s[i]["values"][0] = items_s[i]["values"][0] * 2 + 4
                    poke(items_l[i], "values", 0, items_s[i]["values"][0])
                elif t == R.T_PLATCAL:
                    items_s[i]["size"][0] = items_s[i]["size"][0] * 2 + 4
                    poke(items_l[i], "size", 0, items_s[i]["size"][0])
                elif t == R.T_OPT:
                    items_s[i]["index"] = items_s[i]["index"] + 5
                    items_l[i].logical_camera_index = items_l[i].logical_camera_index + 5
                elif t == R.T_CALIB:
                    items_s[i]["focus"][0] = items_s[i]["focus"][0] * 2 + 4
                    poke(items_l[i], "focus", 0, items_s[i]["focus"][0])
            elif kind == "map":
                sp["map"][0] = sp["map"][0] + 7
                poke(b, "cameras_calibration_map", 0, b.cameras_calibration_map[0] + 7)
            elif kind in ("cell_none", "cell_points", "cell_grow"):
                fr, c = op[1], op[2]
                if kind == "cell_none":
                    sp["cells"][fr][c] = None
                    b.data[fr, c] = None
                else:
                    k = 1 if kind == "cell_points" else (0 if sp["cells"][fr][c] is None else len(sp["cells"][fr][c])) + 1
                    pts = gen.filler((k, 2), 60 + fr + 3 * c + k)
                    sp["cells"][fr][c] = pts
                    b.data[fr, c] = pts.copy()
            elif kind in ("values_list", "values_f8"):
                i = op[1]
                vals = [4.0, 5.0, 6.0] if kind == "values_list" else [7.5, 8.5]
                items_s[i]["values"] = np.array(vals, "<f4")
                items_l[i].values = list(vals) if kind == "values_list" else np.array(vals, "<f8")
            elif kind == "refuse":
                self._refused(b, sp, op[1])
                return self._observed(b), {"spec": copy.deepcopy(model["spec"]), "prev": model["prev"]}
            elif kind == "ev_append":
                e = gen.mk_event(f"n{len(items_s)}", 1, 1, 20 + len(items_s))
                sp["events"].append(e)
                b.events.append(specs.build_item(t, e, sp))
            elif kind == "ev_pop":
                sp["events"].pop(0)
                b.events.pop(0)
            elif kind == "ch_append":
                ch = gen.mk_chan(10 + len(items_s), name=f"n{len(items_s)}")
                sp["channels"].append(ch)
                b.channels.append(specs.build_item(t, ch, sp))
            elif kind == "ch_pop":
                sp["channels"].pop(0)
                b.channels.pop(0)
            else:
                raise ValueError(op)
        except (core.Violation, ohist.Prune):
            raise
        except Exception as e:  # noqa: BLE001
            raise core.HarnessError(f"edit {op} not applicable to {self.name}: {type(e).__name__}: {e}")
        return self._observed(b), {"spec": sp, "prev": prev}

    def _refused(self, b, sp, what):
        """Issue a request that must be refused.  If it is accepted the branch is pruned (C15 / C16 judge
        acceptance); if it raises, the model stays as it is and the oracle checks nothing was left behind."""
        t = self.t
        items = spec_items(sp)
        n = sp.get("nFrames", sp.get("nSamples", NF))
        chans = [c for c, _ in sp["items"]] if "items" in sp else []

        def item(frames, salt=40):
            proto = {R.T_DATA3D: gen.mk_track3d, R.T_EMG: gen.mk_emgsig, R.T_FORCE3D: gen.mk_ftrack}.get(t)
            if proto:
                return specs.build_item(t, proto(frames, tuple([True] * frames), "rf", salt), sp)
            if t == R.T_PLATDATA:
                return specs.build_item(t, gen.mk_plat(frames, tuple([True] * frames), salt), sp)
            return specs.build_item(t, gen.mk_platinfo("rf", salt), sp)

        try:
            if what == "add-wrong-length":
                (b.addSignal if t == R.T_EMG else b.add_track)(item(n + 1))
            elif what == "add-wrong-length-explicit-channel":
                b.addSignal(item(n + 1), channel=max(chans + [0]) + 3)
            elif what == "add-taken-channel":
                if not chans:
                    raise ohist.Prune()
                if t == R.T_EMG:
                    b.addSignal(item(n), channel=chans[0])
                else:
                    b.add_platform(item(n), chans[0])
            elif what == "assign-good-then-bad":
                if t == R.T_PLATDATA:
                    b.platforms = [item(n), "not a platform"]
                else:
                    b.tracks = [item(n), item(n + 1)]
            elif what == "assign-duplicate-channel":
                b.platforms = [(7, item(n)), (7, item(n, 41))]
            elif what == "bulk-add-good-then-bad":
                b.add_platforms([item(n), "not a platform"])
            else:
                raise ValueError(what)
        except ohist.Prune:
            raise
        except Exception:  # noqa: BLE001 - refused, as it must be
            partial = what in ("assign-good-then-bad", "assign-duplicate-channel", "bulk-add-good-then-bad") and t in (R.T_PLATDATA, R.T_PLATCAL)
        else:
            raise ohist.Prune()      # accepted: the model cannot follow (C15 / C16 judge acceptance)
        if partial:
            # what a half-done bulk operation leaves behind is not specified (C15): only well-formedness is
            # judged here, then the branch is left
            if not self._consistent_after_partial(b):
                raise self.V(self.clauses[0], "refused-bulk-op-left-block-inconsistent",
                             f"{gen.spec_label(sp)}: after the refused '{what}' the block's item list and channel list are out of step "
                             f"(declared size != written size, or it cannot be encoded)")
            raise ohist.Prune()

    def _consistent_after_partial(self, b):
        """Well-formed = declared size == written size, and the bytes parse to the end as one block of
        this kind (as many channels as items) with the reference layout."""
        try:
            data = specs.lib_encode(b)
            if int(b.nBytes) != len(data):
                return False
            sp, used, _ = R.decode_block(self.t, start_spec(self.t)["format"], data)
            return used == len(data) and len(spec_items(sp)) == len(lib_items(b, self.t))
        except Exception:  # noqa: BLE001
            return False

    # ---- oracle: indistinguishable from a fresh block built from the model
    def observe(self, b, model, hist):
        sp, prev = model["spec"], model["prev"]
        t = self.t
        lab = gen.spec_label(sp)
        try:
            data = specs.lib_encode(b)
            nb = int(b.nBytes)
        except Exception as e:  # noqa: BLE001
            raise self.V(self.clauses[0], "edited-block-unusable", f"{lab}: {type(e).__name__}: {e}")
        canon = R.encode_block(sp)
        if "size" in self.clauses and nb != len(data):
            raise self.V("size", "nBytes!=written", f"{lab}: declares {nb}, writes {len(data)} after the edit")
        if "layout" in self.clauses and data != canon:
            i = next((i for i, (x, y) in enumerate(zip(data, canon)) if x != y), min(len(data), len(canon)))
            raise self.V("layout", "written!=layout", f"{lab}: lengths {len(data)} vs {len(canon)}, first difference at byte {i}")
        if "gaps" in self.clauses and t in gen.RLE_TYPES:
            try:
                ref, used, _ = R.decode_block(t, sp["format"], data)
            except R.LayoutError as e:
                raise self.V("gaps", "run-table-unparsable", f"{lab}: {e}")
            for i, rit in enumerate(spec_items(ref)):
                present = self._present(sp, i)
                nfr = len(present)
                cov = np.zeros(nfr, bool)
                last = None
                for s, m in rit["segs"]:
                    if m <= 0 or (last is not None and s <= last):
                        raise self.V("gaps", "runs-malformed", f"{lab}: item {i} runs {rit['segs']}")
                    cov[s:s + m] = True
                    last = s + m
                if not np.array_equal(cov, present):
                    raise self.V("gaps", "runs!=present-frames", f"{lab}: item {i} runs {rit['segs']} but present frames are "
                                 f"{present.astype(int)} after the edit")
                f0 = RLE_FIELDS[t][0]
                if np.isnan(np.asarray(rit[f0]).reshape(nfr, -1)[present]).any():
                    raise self.V("gaps", "NaN-inside-run", f"{lab}: item {i}")
        if "roundtrip" in self.clauses:
            try:
                d = specs.lib_decode(t, sp["format"], data)[0]
                df = specs.diff(sp, specs.extract(d))
                again = specs.lib_encode(d)
            except Exception as e:  # noqa: BLE001
                raise self.V("roundtrip", "decode-raises", f"{lab}: {type(e).__name__}: {e}")
            if df:
                raise self.V("roundtrip", "field-differs", f"{lab}: {df}", df.split(":")[0].split("[")[0])
            if again != data:
                raise self.V("roundtrip", "reencode-differs", lab)
        if "equality" in self.clauses:
            fresh = specs.build(sp)
            for what, x, y in (("edited == fresh", b, fresh), ("fresh == edited", fresh, b)):
                try:
                    r = bool(x == y)
                except Exception as e:  # noqa: BLE001
                    raise self.V("equality", "eq-raises", f"{lab}: {what}: {type(e).__name__}: {e}")
                if not r:
                    raise self.V("equality", "equal-content-unequal", f"{lab}: {what} is False after in-place edits "
                                 f"{[self.describe(o) for o in hist]}")
            if prev is not None and R.encode_block(prev) != canon:
                stale = specs.build(prev)
                for what, x, y in (("edited == block-before-the-edit", b, stale), ("block-before-the-edit == edited", stale, b)):
                    try:
                        r = bool(x == y)
                    except Exception as e:  # noqa: BLE001
                        raise self.V("equality", "eq-raises", f"{lab}: {what}: {type(e).__name__}: {e}")
                    if r:
                        raise self.V("equality", "different-content-equal", f"{lab}: {what} is True (last edit {self.describe(hist[-1])})")

    def canon(self, b, model):
        import hashlib

        return hashlib.sha1(R.encode_block(model["spec"])).hexdigest()

    def nontrivial(self, model):
        return model["prev"] is not None


def run_shard(shard):
    prop, t, depth = shard
    acc = core.Acc()
    m = EditMachine(t, CLAUSES[prop])
    ohist.explore(m, acc, depth=depth, tag=f"edit:{R.NAMES[t]}:", wit_extra={"editwalk": True, "prop": prop, "type": t}, copy_states=True,
                  max_states=20000)
    acc.caps = [c for c in acc.caps if "depth cap" not in c]  # the depth is the stated bound of this space (see RULE)
    acc.exhaustive = not acc.caps
    return acc


def shards(prop, tier):
    depth = 2 if tier == "quick" else 3
    kinds = gen.RLE_TYPES if prop == "C05" else R.WRITABLE
    return [(prop, t, depth) for t in kinds]


def replay(w):
    return ohist.run_witness(EditMachine(w["type"], CLAUSES[w["prop"]]), w)


RULE_SUFFIX = ("; plus edit-after-observe histories (depth 2 quick / 3 thorough) on one live block per kind, built and decoded: "
               "in-place edits through public attributes interleaved with size / encode / == observations, compared with a "
               "block built fresh from the edited content")


def edited_variant(t, base_spec, origin="built"):
    """A block that was built (or, origin="decoded", read from bytes), observed (sized / written /
    compared) and then edited in place, with the spec of its final content.  Used as a payload variant by
    the container driver."""
    m = EditMachine(t, ("size",))
    if origin == "decoded":
        start = specs.lib_decode(t, base_spec["format"], R.encode_block(base_spec))[0]
    else:
        start = specs.build(base_spec)
    b = m._observed(start)
    model = {"spec": copy.deepcopy(base_spec), "prev": None}
    prefer = {R.T_EVENTS: "values_list", R.T_DATA2D: "cell_grow", R.T_PLATCAL: "label", R.T_OPT: "ch_append", R.T_CALIB: "value"}
    ops = m.ops(model)
    want = prefer.get(t, "gap")
    op = next((o for o in ops if o[0] == want), ops[0])
    b, model = m.step(b, model, op)
    return b, model["spec"]


def scribble(b):
    """Some in-place edit of a library block through public attributes (used to find out whether two
    reads handed out the same object).  Returns True if something was changed."""
    t = b.type.value
    try:
        items = lib_items(b, t)
    except Exception:  # noqa: BLE001
        items = []
    for it in items:
        for attr in ("label", "camera_name"):
            if isinstance(getattr(it, attr, None), str):
                setattr(it, attr, getattr(it, attr) + "~")
                return True
        for attr in ("torque", "values", "focus"):
            a = getattr(it, attr, None)
            if isinstance(a, np.ndarray) and a.size:
                poke(it, attr, 0, np.asarray(a).reshape(-1)[0] * 0 + 123.0)
                return True
    for attr in ("frequency", "start_time", "startTime"):
        v = getattr(b, attr, None)
        if isinstance(v, (int, float, np.integer, np.floating)):
            setattr(b, attr, v + 1)
            return True
    return False
