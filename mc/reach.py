"""Which mutable objects can be reached from a library object - used to decide "two separately
created blocks share no state" structurally: every in-place edit goes through some mutable object
(an array, a list, an item object, a viewport ...), so if no mutable object is reachable from both
blocks, no edit of one can show in the other.

The walk follows instance state (``vars(obj)``, ``__slots__``), elements of lists / tuples / dicts /
sets, the memory of numpy arrays (``np.shares_memory``), and *public, non-callable class attributes
that hold a list, set or array* (a class-level ``links = []`` is instance data kept in the wrong
place) and class-level containers of any name that currently *hold* arrays or objects of library
classes (a cache filled by earlier calls); constant lookup tables - dicts / tuples of enums, numbers,
functions - are not followed.
Immutable values (numbers, strings, bytes, enum members, dtypes, dates, None), classes, functions
and modules are never reported."""
import datetime
import enum
import types

import numpy as np

_IMMUTABLE = (str, bytes, int, float, complex, bool, type(None), enum.Enum, np.generic, np.dtype, type, datetime.datetime,
              datetime.date, datetime.timedelta, types.FunctionType, types.BuiltinFunctionType, types.MethodType, types.ModuleType,
              property, staticmethod, classmethod, range, frozenset)


def _holds_instance_data(val, depth=3):
    """Does a container hold arrays or objects of library classes (i.e. data that belongs to some instance)?"""
    if depth < 0 or isinstance(val, _IMMUTABLE):
        return False
    if isinstance(val, np.ndarray):
        return True
    if isinstance(val, dict):
        return any(_holds_instance_data(v, depth - 1) or _holds_instance_data(k, depth - 1) for k, v in val.items())
    if isinstance(val, (list, tuple, set)):
        return any(_holds_instance_data(v, depth - 1) for v in val)
    return type(val).__module__.split(".")[0] == "basictdf"


def _class_level(obj):
    for klass in type(obj).__mro__:
        if klass.__module__ in ("builtins", "abc", "typing") or klass.__module__.startswith("numpy"):
            continue
        for name, val in vars(klass).items():
            if name.startswith("__") or isinstance(val, _IMMUTABLE) or callable(val) or name == "_abc_impl":
                continue
            if not name.startswith("_") and isinstance(val, (list, set, np.ndarray)):
                yield name, val          # public class-level list / set / array: instance data kept in the wrong place
            elif isinstance(val, (list, set, dict)) and _holds_instance_data(val):
                yield name, val          # any class-level container that currently holds arrays / library objects (a cache)


def mutable_objects(root, max_depth=6):
    """-> {id: (path, obj)} of the mutable objects reachable from root (root included)."""
    seen = {}
    stack = [("", root, 0)]
    while stack:
        path, obj, d = stack.pop()
        if isinstance(obj, _IMMUTABLE) or id(obj) in seen:
            continue
        if isinstance(obj, tuple):
            if d < max_depth:
                stack += [(f"{path}[{i}]", x, d + 1) for i, x in enumerate(obj)]
            continue
        seen[id(obj)] = (path or "<the object>", obj)
        if d >= max_depth:
            continue
        if isinstance(obj, np.ndarray):
            if obj.dtype == object:
                stack += [(f"{path}[{i}]", x, d + 1) for i, x in enumerate(obj.reshape(-1))]
            continue
        if isinstance(obj, (list, set)):
            stack += [(f"{path}[{i}]", x, d + 1) for i, x in enumerate(obj)]
            continue
        if isinstance(obj, dict):
            stack += [(f"{path}[{k!r}]", v, d + 1) for k, v in obj.items()]
            continue
        try:
            state = dict(vars(obj))
        except TypeError:
            state = {}
        for klass in type(obj).__mro__:
            for name in getattr(klass, "__slots__", ()) or ():
                if isinstance(name, str) and hasattr(obj, name):
                    state.setdefault(name, getattr(obj, name))
        for name, val in state.items():
            stack.append((f"{path}.{name}", val, d + 1))
        for name, val in _class_level(obj):
            if name not in state:
                stack.append((f"{path}.{name} (class attribute)", val, d + 1))
    return seen


def shared(a, b):
    """-> list of (path in a, path in b, what) for mutable objects reachable from both, or arrays
    whose memory overlaps."""
    ma, mb = mutable_objects(a), mutable_objects(b)
    out = []
    for i in ma.keys() & mb.keys():
        out.append((ma[i][0], mb[i][0], type(ma[i][1]).__name__))
    arrs_a = [(p, o) for p, o in ma.values() if isinstance(o, np.ndarray) and o.size]
    arrs_b = [(p, o) for p, o in mb.values() if isinstance(o, np.ndarray) and o.size]
    for pa, oa in arrs_a:
        for pb, ob in arrs_b:
            if oa is not ob and np.shares_memory(oa, ob):
                out.append((pa, pb, "array memory"))
    return sorted(out)
