"""State-space mode on in-memory block objects: BFS over operation histories; a state is
rebuilt by replaying its history on fresh real objects (they do not copy reliably) in lock
step with a boring Python model; deduplication on a canonical (model, observation) form."""
import collections

from . import core


class Prune(Exception):
    """Raised by Machine.step when a transition should simply not be followed (e.g. a request that
    had to be refused was accepted: the model cannot follow, other properties judge that)."""


class Machine:
    """Subclass contract:
    initial()                 -> list of (name, make() -> (impl_state, model_state))
    ops(model_state)          -> list of hashable op descriptors, simplest first
    step(impl, model, op)     -> (impl', model') ; raises core.Violation
    observe(impl, model, hist)-> None ; raises core.Violation (invariant in every state)
    canon(impl, model)        -> hashable
    nontrivial(model)         -> bool
    """

    def initial(self):
        raise NotImplementedError

    def ops(self, model):
        raise NotImplementedError

    def step(self, impl, model, op):
        raise NotImplementedError

    def observe(self, impl, model, hist):
        pass

    def canon(self, impl, model):
        raise NotImplementedError

    def nontrivial(self, model):
        return True

    def describe(self, op):
        return str(op)


def deep_tuple(x):
    return tuple(deep_tuple(v) for v in x) if isinstance(x, (list, tuple)) else x


def replay(machine, init_name, hist):
    """Re-establish a state.  machine.light is True while the prefix runs (a machine may skip
    oracle-only work there; model updates must be identical)."""
    make = dict(machine.initial())[init_name]
    impl, model = make()
    machine.light = True
    try:
        for op in hist:
            impl, model = machine.step(impl, model, deep_tuple(op))
    finally:
        machine.light = False
    return impl, model


def explore(machine, acc, depth=None, max_states=200000, tag="", wit_extra=None, copy_states=True, stop_on_violation=False):
    """BFS.  With copy_states the stored (impl, model) of a state is deep-copied for every
    transition (in-memory blocks copy faithfully); otherwise the state is rebuilt by replay.
    Either way a violation is only reported after its history reproduced on fresh objects."""
    import copy

    wit_extra = wit_extra or {}
    seen = set()
    frontier = collections.deque()
    for name, make in machine.initial():
        try:
            impl, model = make()
            machine.observe(impl, model, ())
        except core.Violation as v:
            acc.violation(v.clause, v.sig, {**wit_extra, "init": name, "history": []}, v.detail)
            continue
        k = (name if getattr(machine, "init_in_key", False) else None, machine.canon(impl, model))
        if k not in seen:
            seen.add(k)
            acc.n["states"] += 1
            frontier.append((name, (), (impl, model) if copy_states else None))
    maxdepth = 0
    while frontier:
        name, hist, stored = frontier.popleft()
        if not copy_states:
            stored = replay(machine, name, hist)
        for op in machine.ops(stored[1]):
            nh = hist + (op,)
            wit = {**wit_extra, "init": name, "history": [list(o) if isinstance(o, tuple) else o for o in nh]}
            try:
                impl, model = copy.deepcopy(stored) if copy_states else replay(machine, name, hist)
                impl, model = machine.step(impl, model, op)
                acc.n["transitions"] += 1
                machine.observe(impl, model, nh)
                acc.n["traces"] += 1
            except Prune:
                acc.outcomes[f"{tag}pruned"] += 1
                continue
            except core.Violation as v:
                acc.n["transitions"] += 1
                acc.violation(v.clause, v.sig, wit, f"{tag}{name} + {[machine.describe(o) for o in nh]}: {v.detail}")
                if stop_on_violation:
                    acc.cap(f"{tag}stopped at first violation")
                    frontier.clear()
                    break
                continue
            acc.outcomes[f"{tag}{op[0] if isinstance(op, tuple) else op}"] += 1
            k = (name if getattr(machine, "init_in_key", False) else None, machine.canon(impl, model))
            if k in seen:
                continue
            seen.add(k)
            acc.n["states"] += 1
            if machine.nontrivial(model):
                acc.n["nontrivial"] += 1
            maxdepth = max(maxdepth, len(nh))
            acc.sample({"start": f"{tag}{name}", "history": [machine.describe(o) for o in nh]}, 3)
            if depth is not None and len(nh) >= depth:
                acc.cap(f"{tag}depth cap {depth}")
                continue
            if len(seen) >= max_states:
                acc.cap(f"{tag}state cap {max_states}")
                continue
            frontier.append((name, nh, (impl, model) if copy_states else None))
    acc.extra.setdefault("machines", []).append({"machine": tag or type(machine).__name__, "states": len(seen), "max_depth": maxdepth})
    return seen


def run_witness(machine, w):
    try:
        hist = [deep_tuple(o) for o in w["history"]]
        impl, model = replay(machine, w["init"], hist[:-1])
        if hist:
            impl, model = machine.step(impl, model, hist[-1])  # the last step with the full oracle
        machine.observe(impl, model, tuple(hist))
    except core.Violation as v:
        return v
    return None
