"""Single-site mutations of a block spec: every header scalar, label, channel number, sample
(changed by >= 1.0 and >= 50 %: beyond any allclose tolerance), a moved gap, one item appended,
one removed.  Each result is again a *valid* spec that differs from the input in content."""
import copy

import numpy as np

from . import gen
from . import tdfref as R


def _bump(v):
    """A clearly different finite value of the same dtype."""
    return v * 2 + 4 if np.isfinite(v) and abs(v) < 1e30 else type(v)(1.0)


def _arr_sites(a, which="ends"):
    a = np.asarray(a)
    flat = a.reshape(-1)
    ok = [i for i in range(flat.size) if not (a.dtype.kind == "f" and np.isnan(flat[i]))]
    if not ok:
        return []
    return sorted({ok[0], ok[-1], ok[len(ok) // 2]})


def _with(sp, path, value):
    out = copy.deepcopy(sp)
    cur = out
    for p in path[:-1]:
        cur = cur[p]
        if isinstance(cur, tuple):
            raise TypeError("tuple in path")
    cur[path[-1]] = value
    return out


def _items_key(sp):
    for k in ("tracks", "items", "cams", "channels", "events"):
        if k in sp:
            return k
    return None


def _item_dict(sp, k, i):
    it = sp[k][i]
    return it[1] if isinstance(it, tuple) else it


def _set_item_field(sp, k, i, field, value):
    out = copy.deepcopy(sp)
    it = out[k][i]
    if isinstance(it, tuple):
        d = dict(it[1])
        d[field] = value
        out[k][i] = (it[0], d)
    else:
        it[field] = value
    return out


def _roll_gap(sp, k, i):
    """Move the gap pattern of item i by one frame (keeps the number of present frames)."""
    t = sp["type"]
    d = _item_dict(sp, k, i)
    fields = {R.T_DATA3D: ("data",), R.T_EMG: ("data",), R.T_FORCE3D: ("ap", "force", "torque"),
              R.T_PLATDATA: ("ap", "force", "torque")}[t]
    first = np.asarray(d[fields[0]])
    n = len(first)
    present = R.present_rows(*[np.asarray(d[f]).reshape(n, -1) for f in fields])
    if present.all() or not present.any():
        return None
    rolled = np.roll(present, 1)
    if np.array_equal(rolled, present):
        return None
    out = sp
    for f in fields:
        a = np.asarray(d[f])
        vals = a[present]
        new = np.full_like(a, np.nan)
        new[rolled] = vals
        out = _set_item_field(out, k, i, f, new)
    return out


def new_item(sp, salt=9):
    t = sp["type"]
    n = sp.get("nFrames", sp.get("nSamples"))
    if t == R.T_DATA3D:
        return gen.mk_track3d(n, tuple([True] * n), "extra", salt)
    if t == R.T_EMG:
        return (77, gen.mk_emgsig(n, tuple([True] * n), "extra", salt))
    if t == R.T_FORCE3D:
        return gen.mk_ftrack(n, tuple([True] * n), "extra", salt)
    if t == R.T_PLATDATA:
        return (77, gen.mk_plat(n, tuple([True] * n), salt))
    if t == R.T_PLATCAL:
        return (77, gen.mk_platinfo("extra", salt))
    if t == R.T_CALIB:
        return gen.mk_cam(sp["format"], salt)
    if t == R.T_OPT:
        return gen.mk_chan(salt, name="extra")
    if t == R.T_EVENTS:
        return gen.mk_event("extra", 1, 2, salt)
    raise ValueError(t)


def sites(sp):
    """Yield (site name, mutated spec)."""
    t = sp["type"]
    k = _items_key(sp)
    # ---- header scalars
    for name in ("frequency", "model"):
        if name in sp:
            yield f"scalar.{name}", {**sp, name: (sp[name] + 1) % 4 if name == "model" else sp[name] + 1}
    if "startTime" in sp:
        yield "scalar.startTime", {**sp, "startTime": np.float32(_bump(np.float32(sp["startTime"])))}
    if "flags" in sp:
        yield "scalar.flags", {**sp, "flags": 1 - sp["flags"]}
    for name in ("nFrames", "nSamples"):
        if name in sp and k and not sp[k] and t != R.T_DATA2D:
            yield f"scalar.{name}", {**sp, name: sp[name] + 1}
    for name in ("vol", "rot", "trans"):
        if name in sp:
            for pos in _arr_sites(sp[name]):
                a = np.array(sp[name], copy=True)
                a.reshape(-1)[pos] = _bump(a.reshape(-1)[pos])
                yield f"scalar.{name}", {**sp, name: a}
    if t == R.T_DATA3D and sp["format"] == 1:
        links = list(sp.get("links") or [])
        yield "links.append", {**sp, "links": links + [(3, 4)]}
        if links:
            yield "links.remove", {**sp, "links": links[1:]}
            yield "links.change", {**sp, "links": [(links[0][0] + 1, links[0][1])] + links[1:]}
    if t == R.T_DATA3D and not (sp.get("links") or []):
        if sp["format"] == 1:
            yield "scalar.format", {kk: v for kk, v in {**sp, "format": 2}.items() if kk != "links"}
        else:
            yield "scalar.format", {**sp, "format": 1, "links": []}
    # ---- data2D
    if t == R.T_DATA2D:
        nf, nc = sp["nFrames"], sp["nCams"]
        for c in range(nc):
            m = np.array(sp["map"], copy=True)
            m[c] = m[c] + 11
            yield "channel.map", {**sp, "map": m}
        for fr in range(nf):
            for c in range(nc):
                cells = [list(r) for r in sp["cells"]]
                if cells[fr][c] is None:
                    cells[fr][c] = gen.filler((1, 2), 40 + fr + c)
                    yield "cell.none->points", {**sp, "cells": cells}
                else:
                    a = np.array(cells[fr][c], copy=True)
                    cells2 = [list(r) for r in sp["cells"]]
                    cells2[fr][c] = None
                    yield "cell.points->none", {**sp, "cells": cells2}
                    for pos in _arr_sites(a):
                        b = np.array(a, copy=True)
                        b.reshape(-1)[pos] = _bump(b.reshape(-1)[pos])
                        cells3 = [list(r) for r in sp["cells"]]
                        cells3[fr][c] = b
                        yield "sample.cell", {**sp, "cells": cells3}
                    cells4 = [list(r) for r in sp["cells"]]
                    cells4[fr][c] = np.concatenate([a, gen.filler((1, 2), 50)])
                    yield "cell.point-appended", {**sp, "cells": cells4}
        return
    if not k:
        return
    items = sp[k]
    # ---- per item
    for i in range(len(items)):
        d = _item_dict(sp, k, i)
        for field, v in d.items():
            if field == "segs":
                continue
            if isinstance(v, str):
                yield f"label.{field}", _set_item_field(sp, k, i, field, v + "x" if len(v) < 30 else v[:-1])
                if v and v.swapcase() != v:
                    yield f"label.{field}.case", _set_item_field(sp, k, i, field, v.swapcase())
            elif isinstance(v, np.ndarray):
                for pos in _arr_sites(v):
                    a = np.array(v, copy=True)
                    if t in (R.T_FORCE3D, R.T_PLATDATA, R.T_DATA3D, R.T_EMG) and np.isnan(a.reshape(-1)[pos]):
                        continue
                    a.reshape(-1)[pos] = _bump(a.reshape(-1)[pos]) if a.dtype.kind == "f" else a.reshape(-1)[pos] + 3
                    yield f"sample.{field}", _set_item_field(sp, k, i, field, a)
                if field == "values" and sp["type"] == R.T_EVENTS and d.get("etype") == 1:
                    yield "sample.values.appended", _set_item_field(sp, k, i, field, np.concatenate([v, np.array([9.5], "<f4")]))
            elif isinstance(v, (int, np.integer)) and field in ("index",):
                yield f"scalar.{field}", _set_item_field(sp, k, i, field, int(v) + 1)
            elif field == "etype" and len(d["values"]) <= 1:
                yield "scalar.etype", _set_item_field(sp, k, i, field, 1 - v)
        if isinstance(items[i], tuple):  # channel-mapped item
            out = copy.deepcopy(sp)
            out[k][i] = (88, out[k][i][1])
            yield "channel", out
        if t in gen.RLE_TYPES:
            r = _roll_gap(sp, k, i)
            if r is not None:
                yield "gap.moved", r
    if t == R.T_CALIB:
        for i in range(len(items)):
            m = np.array(sp["map"], copy=True)
            m[i] = m[i] + 11
            yield "channel.map", {**sp, "map": m}
    # ---- item count
    extra = new_item(sp)
    out = copy.deepcopy(sp)
    out[k] = list(out[k]) + [extra]
    if t == R.T_CALIB:
        out["map"] = np.concatenate([np.asarray(sp["map"], "<i2"), np.array([99], "<i2")])
    yield "item.appended", out
    for i in sorted({0, len(items) // 2, len(items) - 1}) if items else []:
        out = copy.deepcopy(sp)
        del out[k][i]
        if t == R.T_CALIB:
            out["map"] = np.delete(np.asarray(sp["map"], "<i2"), i)
        yield "item.removed", out
