"""C19 - constructors refuse arguments whose shape would mis-size the encoding.

For every validated constructor argument: every array of rank 0-3 with extents 0..4 (156
shapes) x 6 dtypes plus non-array kinds (list, nested list, tuple, None, str, int, float),
the other arguments at a valid default.  Coupled arrays of a force/torque track: all 27 000
triples over the 30 shapes of rank 1-2.  Events: iterable / non-iterable values x both kinds.
Oracle from the statement only: required shape => accepted; any other shape / kind => an
exception at construction; every accepted object embedded in a minimal block must have
nBytes == encoded length."""
import io
import itertools

import numpy as np

from .. import core, gen, specs
from .. import tdfref as R

PROP = "C19"
RULE = ("states = (constructor argument, candidate value); candidates: 156 shapes (rank 0-3, extents 0..4) x 6 dtypes + 9 "
        "non-array kinds per argument; 27 000 shape triples for the coupled arrays; event value menu x 2 kinds; "
        "non-trivial = candidate differs from the required shape/kind")
ASSUMPTIONS = [
    "which exception class is raised is not part of the oracle (any exception at construction = refused)",
    "the camera map of CalibrationDataBlock is not one of the listed fixed-shape arguments and is not enumerated",
    "BTS-format camera records: only the viewport is enumerated (the statement names Seelab-format parameters)",
]
DTYPES = ("<f4", "<f8", "<i4", "<i8", "u1", "?")


def shapes(maxrank=3):
    out = [()]
    for r in range(1, maxrank + 1):
        out += list(itertools.product(range(5), repeat=r))
    return out


NON_ARRAYS = [("list3", [1.0, 2.0, 3.0]), ("list2", [1, 2]), ("nested", [[1.0, 0, 0], [0, 1.0, 0], [0, 0, 1.0]]),
              ("tuple3", (1.0, 2.0, 3.0)), ("tuple2", (1, 2)), ("None", None), ("str", "ab"), ("int", 5), ("float", 2.5)]


def candidates():
    for sh in shapes():
        for dt in DTYPES:
            n = int(np.prod(sh)) if sh != () else 1
            yield (f"array{sh}:{dt}", (np.arange(n) % 2 + 1).astype(dt).reshape(sh))
    for name, v in NON_ARRAYS:
        yield (name, v)


def _try(fn):
    try:
        return fn(), None
    except Exception as e:  # noqa: BLE001
        return None, e


def _sized(block):
    """nBytes == encoded length (or the encoder itself refuses - not silent)."""
    try:
        data = specs.lib_encode(block)
    except Exception:  # noqa: BLE001
        return True, "encode-refuses"
    return int(block.nBytes) == len(data), f"nBytes {block.nBytes} vs {len(data)} written"


# constructor table: name -> (required shape, make(value) -> (object, block embedding it))
def _targets():
    n = specs.lib()
    I3, R3, T3 = np.ones(3, "<f4"), np.eye(3, dtype="<f4"), np.zeros(3, "<f4")
    out = {}

    def d3(**kw):
        a = dict(volume=I3, rotationMatrix=R3, translationVector=T3)
        a.update(kw)
        b = n.d3.Data3D(100, 2, a["volume"], a["rotationMatrix"], a["translationVector"])
        return b, b

    def f3(**kw):
        a = dict(volume=I3, rotationMatrix=R3, translationVector=T3)
        a.update(kw)
        b = n.f3.ForceTorque3D(100, 2, a["volume"], a["rotationMatrix"], a["translationVector"])
        return b, b

    def cal(**kw):
        a = dict(size=I3, rot=R3, trans=T3)
        a.update(kw)
        b = n.cal.CalibrationDataBlock(n.cal.DistorsionModel(3), a["size"], a["rot"], a["trans"], np.array([], "<i2"), [],
                                       n.cal.CalibrationDataBlockFormat(1))
        return b, b

    for nm, key, sh in (("volume", "volume", (3,)), ("rotationMatrix", "rotationMatrix", (3, 3)), ("translationVector", "translationVector", (3,))):
        out[f"Data3D.{nm}"] = (sh, lambda v, key=key: d3(**{key: v}))
        out[f"ForceTorque3D.{nm}"] = (sh, lambda v, key=key: f3(**{key: v}))
    for nm, key, sh in (("calibration_volume_size", "size", (3,)), ("calibration_volume_rotation_matrix", "rot", (3, 3)),
                        ("calibration_volume_translation_vector", "trans", (3,))):
        out[f"CalibrationDataBlock.{nm}"] = (sh, lambda v, key=key: cal(**{key: v}))

    vp_ok = n.types.CameraViewPort(np.array([0, 0], "<i4"), np.array([640, 480], "<i4"))
    seelab_defaults = dict(rotation_matrix=np.eye(3), translation_vector=np.zeros(3), focus=np.ones(2), optical_center=np.ones(2),
                           radial_distortion=np.zeros(2), decentering=np.zeros(2), thin_prism=np.zeros(2), view_port=vp_ok)

    def seelab(**kw):
        a = dict(seelab_defaults)
        a.update(kw)
        c = n.cal.SeelabCameraData(**a)
        b = n.cal.CalibrationDataBlock(n.cal.DistorsionModel(3), I3, R3, T3, np.array([0], "<i2"), [c], n.cal.CalibrationDataBlockFormat(1))
        return c, b

    for key, sh in (("rotation_matrix", (3, 3)), ("translation_vector", (3,)), ("focus", (2,)), ("optical_center", (2,)),
                    ("radial_distortion", (2,)), ("decentering", (2,)), ("thin_prism", (2,)), ("view_port", (2, 2))):
        out[f"SeelabCameraData.{key}"] = (sh, lambda v, key=key: seelab(**{key: v}))

    def bts(v):
        c = n.cal.BTSCameraData(np.eye(3), np.zeros(3), np.ones(2), np.ones(2), np.zeros(70), np.zeros(70), v)
        b = n.cal.CalibrationDataBlock(n.cal.DistorsionModel(3), I3, R3, T3, np.array([0], "<i2"), [c], n.cal.CalibrationDataBlockFormat(2))
        return c, b

    out["BTSCameraData.view_port"] = ((2, 2), bts)

    def opt(v):
        c = n.opt.OpticalChannelData(0, "l", "t", "n", v)
        return c, n.opt.OpticalSetupBlock(channels=[c])

    out["OpticalChannelData.camera_viewport"] = ((2, 2), opt)

    DEF = object()

    def vp(origin=DEF, size=DEF):
        o = np.array([1, 2], "<i4") if origin is DEF else origin
        s = np.array([3, 4], "<i4") if size is DEF else size
        v = n.types.CameraViewPort(o, s)
        c = n.opt.OpticalChannelData(0, "l", "t", "n", v)
        return v, n.opt.OpticalSetupBlock(channels=[c])

    out["CameraViewPort.origin"] = ("vp", lambda v: vp(origin=v))
    out["CameraViewPort.size"] = ("vp", lambda v: vp(size=v))
    return out


def expected_accept(req, name, value):
    if req == "vp":  # two-element list, tuple or array
        if isinstance(value, np.ndarray):
            return value.shape == (2,)
        if isinstance(value, (list, tuple)):
            return len(value) == 2 and all(isinstance(x, (int, float)) for x in value)
        return False
    return isinstance(value, np.ndarray) and value.shape == tuple(req)


def args_shard(target, after=None):
    acc = core.Acc()
    if after:
        failed_decodes()
    req, make = _targets()[target]
    for cname, value in candidates():
        acc.n["states"] += 1
        acc.n["evaluations"] += 1
        want = expected_accept(req, target, value)
        if not want:
            acc.n["nontrivial"] += 1
        res, err = _try(lambda: make(value))
        acc.n["transitions"] += 1
        wit = {"target": target, "candidate": cname, "after": after}
        kind = cname.split(":")[0].split("(")[0] if cname.startswith("array") else cname
        if want and err is not None:
            acc.violation("required-shape-refused", f"{PROP}:{target}:required-shape-refused:{kind}", wit,
                          f"{target} <- {cname}: {type(err).__name__}: {err}")
            continue
        if not want and err is None:
            ok, detail = _sized(res[1])
            acc.violation("wrong-shape-accepted", f"{PROP}:{target}:wrong-shape-accepted:{kind}", wit,
                          f"{target} <- {cname} accepted (required {req}); embedded block: {detail}")
            continue
        if want:
            ok, detail = _sized(res[1])
            acc.n["transitions"] += 1
            if not ok or detail == "encode-refuses":
                acc.violation("accepted-but-missized", f"{PROP}:{target}:accepted-but-missized:{kind}", wit, f"{target} <- {cname}: {detail}")
                continue
            acc.outcomes[f"{target}:accepted"] += 1
        else:
            acc.outcomes[f"{target}:refused"] += 1
        acc.n["traces"] += 1
    acc.sample({"argument": target, "required": str(req), "candidates": "156 shapes x 6 dtypes + 9 non-array kinds"}, 1)
    return acc


def failed_decodes():
    """Decode attempts that raise (truncated bytes of every kind): whatever they leave behind must not
    change what the constructors accept afterwards."""
    for t in R.WRITABLE:
        for v in (1, 0):          # every kind ends on a decode that fails in the middle of an item
            try:
                sp, payload, _, _ = __import__("mc.kdriver", fromlist=["variant"]).variant(t, v)
            except Exception:  # noqa: BLE001
                continue
            for cut in (max(0, len(payload) - 3), len(payload) // 2):
                try:
                    specs.lib_decode(t, sp["format"], payload[:cut])
                except Exception:  # noqa: BLE001
                    pass


def coupled_shard(shard):
    i, k = shard[1], shard[2]
    acc = core.Acc()
    n = specs.lib()
    if len(shard) > 3 and shard[3] == "after-failed-decode":
        failed_decodes()
    sh30 = [s for s in shapes(2) if len(s) >= 1]
    I3, R3, T3 = np.ones(3, "<f4"), np.eye(3, dtype="<f4"), np.zeros(3, "<f4")
    for idx, (s1, s2, s3) in enumerate(itertools.product(sh30, repeat=3)):
        if idx % k != i:
            continue
        acc.n["states"] += 1
        acc.n["evaluations"] += 1
        arrs = [np.ones(s, "<f4") * (j + 1) for j, s in enumerate((s1, s2, s3))]
        res, err = _try(lambda: n.f3.ForceTorqueTrack("t", *arrs))
        acc.n["transitions"] += 1
        wit = {"coupled": [list(s1), list(s2), list(s3)], "after": shard[3] if len(shard) > 3 else None}
        same = s1 == s2 == s3
        good = same and len(s1) == 2 and s1[1] == 3
        if not good:
            acc.n["nontrivial"] += 1
        if good and err is not None:
            acc.violation("required-shape-refused", f"{PROP}:ForceTorqueTrack:required-shape-refused", wit, f"{s1}: {type(err).__name__}: {err}")
            continue
        if not same and err is None:
            acc.violation("unequal-shapes-accepted", f"{PROP}:ForceTorqueTrack:unequal-shapes-accepted", wit, f"{s1} {s2} {s3} accepted")
            continue
        if err is None:
            # accepted: must not be mis-sized once inside a block of matching frame count
            tr = res
            try:
                b = n.f3.ForceTorque3D(100, s1[0], I3, R3, T3)
                b.add_track(tr)
                ok, detail = _sized(b)
                tb = io.BytesIO()
                tr._write(tb)
                if int(tr.nBytes) != len(tb.getvalue()):
                    ok, detail = False, f"track nBytes {tr.nBytes} vs {len(tb.getvalue())} written"
            except Exception:  # noqa: BLE001
                ok, detail = True, "refused-later"
            acc.n["transitions"] += 1
            if not ok:
                acc.violation("accepted-but-missized", f"{PROP}:ForceTorqueTrack:accepted-but-missized:{'n3' if good else 'other'}", wit,
                              f"three arrays of shape {s1} accepted; {detail}")
                continue
            acc.outcomes[f"coupled:accepted:{'n3' if good else 'other:' + detail}"] += 1
        else:
            acc.outcomes["coupled:refused"] += 1
        acc.n["traces"] += 1
    acc.sample({"coupled arrays": "ForceTorqueTrack(application_point, force, torque)", "triples": 27000}, 1)
    return acc


def events_shard(_):
    acc = core.Acc()
    n = specs.lib()
    menu = [("None", None, None), ("int", 5, None), ("float", 1.5, None), ("object", object(), None),
            ("0d-f4-array", np.array(5.0, "<f4"), None), ("0d-f8-array", np.array(5.0), None), ("numpy-scalar", np.float32(2.0), None)]
    for k in range(0, 4):
        vals = [0.5 + j for j in range(k)]
        menu += [(f"list{k}", list(vals), k), (f"tuple{k}", tuple(vals), k), (f"f4array{k}", np.array(vals, "<f4"), k),
                 (f"f8array{k}", np.array(vals, "<f8"), k), (f"i4array{k}", np.array([int(v) for v in vals], "<i4"), k)]
        # the same counts with values a truth test / a comparison treats specially: zeros, negative zeros, NaN, inf
        for vname, fill in (("zeros", 0.0), ("negzeros", -0.0), ("nans", float("nan")), ("infs", float("inf"))):
            if k == 0:
                continue
            special = [fill] * k
            lead = [1.5] + [fill] * (k - 1)
            menu += [(f"{vname}-list{k}", list(special), k), (f"{vname}-f4array{k}", np.array(special, "<f4"), k),
                     (f"lead-{vname}-list{k}", list(lead), k), (f"lead-{vname}-f8array{k}", np.array(lead, "<f8"), k)]
    menu.append(("generator2", "gen", 2))
    for etype in (0, 1):
        for cname, value, k in menu:
            acc.n["states"] += 1
            acc.n["evaluations"] += 1
            isgen = isinstance(value, str) and value == "gen"
            v = (x + 0.5 for x in range(2)) if isgen else value
            want = k is not None and (etype == 1 or k <= 1)
            if cname == "generator2":
                want = None  # a generator has no len(): either outcome is fine as long as nothing is mis-sized
            if not want:
                acc.n["nontrivial"] += 1
            res, err = _try(lambda: n.ev.Event("e", v, n.ev.EventsDataType(etype)))
            acc.n["transitions"] += 1
            wit = {"event": cname, "etype": etype}
            if want is True and err is not None:
                acc.violation("valid-values-refused", f"{PROP}:Event:valid-values-refused:{cname.rstrip('0123')}", wit,
                              f"Event(values={cname}, kind={etype}): {type(err).__name__}: {err}")
                continue
            if want is False and err is None:
                clause = "non-iterable-accepted" if k is None else "single-event-with-many-values-accepted"
                acc.violation(clause, f"{PROP}:Event:{clause}:{cname.rstrip('0123')}", wit, f"Event(values={cname}, kind={etype}) accepted")
                continue
            if err is None:
                e = res
                buf = io.BytesIO()
                e._write(buf)
                exp = np.array([0.5, 1.5] if isgen else value, "<f4") if k is not None else None
                if int(e.nBytes) != len(buf.getvalue()) or (exp is not None and (len(e) != len(exp) or not np.array_equal(np.asarray(e.values, "<f4"), exp, equal_nan=True))):
                    acc.violation("accepted-but-missized", f"{PROP}:Event:accepted-but-missized:{cname.rstrip('0123')}", wit,
                                  f"Event(values={cname}): nBytes {e.nBytes}, written {len(buf.getvalue())}, values {e.values}")
                    continue
                acc.outcomes["event:accepted"] += 1
            else:
                acc.outcomes["event:refused"] += 1
            acc.n["traces"] += 1
    # an Event object with several values and the single kind must not come into existence by decoding either
    for k in (2, 3):
        acc.n["states"] += 1
        acc.n["evaluations"] += 1
        acc.n["nontrivial"] += 1
        acc.n["transitions"] += 1
        data = R.encode_block(gen.events([gen.mk_event("ok", 1, 1), {"label": "bad", "etype": 0, "values": gen.filler((k,), 3)}]))
        wit = {"event": f"decoded-single-{k}", "etype": 0}
        try:
            blk = specs.lib_decode(R.T_EVENTS, 1, data)[0]
            bad = [e for e in blk if getattr(e.type, "value", e.type) == 0 and len(e) > 1]
        except Exception:  # noqa: BLE001
            bad = []
        if bad:
            acc.violation("single-event-with-many-values-accepted", f"{PROP}:Event:single-event-with-many-values-accepted:decoded", wit,
                          f"decoding an events block yields a single (non-sequence) Event object holding {len(bad[0])} values")
        else:
            acc.outcomes["event:decoded-single-many:refused"] += 1
            acc.n["traces"] += 1
    acc.sample({"events": [m[0] for m in menu], "kinds": ["single", "sequence"]}, 1)
    return acc


def _shard(shard):
    if shard[0] == "arg":
        return args_shard(shard[1], shard[2] if len(shard) > 2 else None)
    if shard[0] == "coupled":
        return coupled_shard(shard)
    return events_shard(shard)


def run(tier):
    from .. import env

    env.setup()
    shards = [("events",)] + [("arg", t) for t in sorted(_targets())] + [("coupled", i, 8) for i in range(8)] + \
        [("coupled", i, 8, "after-failed-decode") for i in range(8)] + [("arg", t, "after-failed-decode") for t in sorted(_targets())]
    return core.pmap(__name__, "_shard", shards)


def replay(w):
    if "target" in w:
        acc = args_shard(w["target"], w.get("after"))
    elif "coupled" in w:
        acc = core.Acc()
        for i in range(8):
            acc.merge(coupled_shard(("coupled", i, 8, w["after"]) if w.get("after") else ("coupled", i, 8)))
    else:
        acc = events_shard(None)
    for v in acc.violations:
        if v["witness"] == w:
            return core.Violation(v["clause"], v["sig"], w, v["detail"])
    return None
