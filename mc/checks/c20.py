"""C20 - separately created blocks share no state.

For each of the seven block classes that own an item container: two (thorough: three) instance
slots; operations: construct without items, construct with a *fresh* item list (where the
constructor takes one), decode the same bytes, add / remove / relabel an item or write sample values in place in one slot (decodes contain an
item that is missing in every frame); all
interleavings by BFS to a depth bound, every state rebuilt by replay on fresh objects (never by
copying: sharing is the subject).  Model: independent Python lists.  Oracle after every
operation, for every slot: len / iteration / encoding == its own model list."""
import numpy as np

from .. import core, editwalk, gen, ohist, specs
from .. import tdfref as R

PROP = "C20"
RULE = ("[plus the structural form for all 9 kinds: 3 variants x 6 ways of creating two blocks, sets of reachable mutable "
        "objects (array memory, lists, items, viewports, public class-level lists) disjoint; items of one decoded block pairwise too] " +"states = per-slot model lists (item identifiers, edited flags) for 2 (thorough 3) slots reached by BFS to depth "
        "5 (quick) / 6 (thorough) per class; every op on every slot in every state; oracle on all slots after each op; "
        "non-trivial = both slots hold an object and they differ")
ASSUMPTIONS = [
    "passing the *same* list object to two constructors is ordinary Python aliasing and is not in the alphabet",
    "exploration of a class stops at its first violation (leaked module-level state would taint later histories)",
    "items per slot <= 3",
]
NF = 2
MAXITEMS = 3


class Adapter:
    """Uniform view of one block class: constructors, item maker, mutators, identity of items."""

    def __init__(self, t):
        self.t = t
        self.name = R.NAMES[t]

    def spec(self, ids):
        t = self.t
        g = gen
        T = (True,) * NF
        if t == R.T_OPT:
            return g.optical([g.mk_chan(i, name=f"c{i}") for i in ids])
        if t == R.T_EVENTS:
            return g.events([g.mk_event(f"e{i}", 1, 2, i) for i in ids])
        if t == R.T_EMG:
            return g.emg(NF, [(i, g.mk_emgsig(NF, T, f"s{i}", i)) for i in ids])
        if t == R.T_DATA3D:
            return g.data3d(NF, [g.mk_track3d(NF, T, f"m{i}", i) for i in ids])
        if t == R.T_FORCE3D:
            return g.force3d(NF, [g.mk_ftrack(NF, T, f"f{i}", i) for i in ids])
        if t == R.T_PLATCAL:
            return g.platcal([(i, g.mk_platinfo(f"p{i}", i)) for i in ids])
        if t == R.T_PLATDATA:
            return g.platdata(NF, [(i, g.mk_plat(NF, T, i)) for i in ids])
        raise ValueError(t)

    def item(self, i):
        sp = self.spec([i])
        k = next(k for k in ("tracks", "items", "channels", "events") if k in sp)
        it = sp[k][0]
        return specs.build_item(self.t, it[1] if isinstance(it, tuple) else it, sp)

    def new(self):
        n = specs.lib()
        g = gen.geom()
        t = self.t
        if t == R.T_OPT:
            return n.opt.OpticalSetupBlock()
        if t == R.T_EVENTS:
            return n.ev.TemporalEventsData(start_time=0.125)
        if t == R.T_EMG:
            return n.emg.EMG(1000, NF, 0.25)
        if t == R.T_DATA3D:
            return n.d3.Data3D(100, NF, g["vol"], g["rot"], g["trans"], 0.5)
        if t == R.T_FORCE3D:
            return n.f3.ForceTorque3D(200, NF, g["vol"], g["rot"], g["trans"], 1.5)
        if t == R.T_PLATCAL:
            return n.pc.ForcePlatformsCalibrationDataBlock()
        return n.pd.ForcePlatformsDataBlock(2.5, 800, NF)

    def has_ctor_list(self):
        return self.t in (R.T_OPT, R.T_PLATCAL)

    def new_with(self, ids):
        n = specs.lib()
        items = [self.item(i) for i in ids]
        if self.t == R.T_OPT:
            return n.opt.OpticalSetupBlock(channels=items)
        return n.pc.ForcePlatformsCalibrationDataBlock(platforms=items)

    def decode(self, ids):
        sp = self.spec(ids)
        return specs.lib_decode(self.t, sp["format"], R.encode_block(sp))[0]

    def add(self, b, i):
        t = self.t
        it = self.item(i)
        if t == R.T_OPT:
            b.channels.append(it)
        elif t == R.T_EVENTS:
            b.events.append(it)
        elif t == R.T_EMG:
            b.addSignal(it, channel=i)
        elif t in (R.T_DATA3D, R.T_FORCE3D):
            b.add_track(it)
        else:
            b.add_platform(it, i)

    def remove_first(self, b):
        t = self.t
        if t == R.T_OPT:
            b.channels.pop(0)
        elif t == R.T_EVENTS:
            b.events.pop(0)
        elif t == R.T_EMG:
            b.removeSignal(next(iter(b)).label)
        elif t in (R.T_DATA3D, R.T_FORCE3D):
            b.tracks = list(b.tracks)[1:]
        elif t == R.T_PLATCAL:
            b.remove_platform(0)
        else:
            raise NotImplementedError

    def can_remove(self):
        return self.t != R.T_PLATDATA

    def items(self, b):
        t = self.t
        if t == R.T_PLATCAL:
            return [p for _, p in b.platforms]
        if t == R.T_PLATDATA:
            return [p for _, p in b]
        return list(b)

    def edit_first(self, b):
        it = self.items(b)[0]
        t = self.t
        if t == R.T_OPT:
            it.camera_name = it.camera_name + "*"
        elif t == R.T_PLATDATA:
            it.torque[0] = it.torque[0] + 4096
        elif t == R.T_EVENTS:
            it.values[0] = it.values[0] + 4096
        else:
            it.label = it.label + "*"

    def ident(self, it):
        t = self.t
        if t == R.T_OPT:
            return it.camera_name
        if t == R.T_PLATDATA:
            v = float(np.asarray(it.torque).reshape(-1)[0])
            k = int(round(v // 4096))
            base = v - 4096 * k
            which = next((i for i in range(32) if abs(float(gen.mk_plat(NF, (True,) * NF, i)["torque"][0]) - base) < 1e-3), None)
            return f"d{which}" + "*" * k
        if t == R.T_EVENTS:
            v = float(it.values[0])
            base = float(gen.mk_event("x", 1, 2, int(it.label[1:]))["values"][0])
            return it.label + "*" * int(round((v - base) / 4096))
        return it.label

    def model_ident(self, i, edits):
        pre = {R.T_OPT: "c", R.T_EVENTS: "e", R.T_EMG: "s", R.T_DATA3D: "m", R.T_FORCE3D: "f", R.T_PLATCAL: "p", R.T_PLATDATA: "d"}[self.t]
        return f"{pre}{i}" + "*" * edits


class ShareMachine(ohist.Machine):
    """Per-slot model = the full spec of what that slot must contain; the oracle compares each
    slot's *encoding* (and its public length / iteration) with the reference encoding of its own
    model, so any leak of items or sample values between instances is visible."""

    def __init__(self, t, nslots):
        self.a = Adapter(t)
        self.t = t
        self.nslots = nslots

    def V(self, clause, detail, extra=""):
        return core.Violation(clause, f"{PROP}:{self.a.name}:{clause}{(':' + extra) if extra else ''}", None, detail)

    def initial(self):
        return [("start", lambda: ([None] * self.nslots, [None] * self.nslots))]

    def _key(self, sp):
        return next(k for k in ("tracks", "items", "channels", "events") if k in sp)

    def _decode_spec(self):
        """Two items; for the run-length coded kinds the second one is missing in every frame."""
        sp = self.a.spec([10, 11])
        if self.t in gen.RLE_TYPES:
            k = self._key(sp)
            it = sp[k][1]
            d = it[1] if isinstance(it, tuple) else it
            for f in editwalk.RLE_FIELDS[self.t]:
                d[f][:] = np.nan
        return sp

    def ops(self, model):
        out = []
        used = sorted({self._id(it) for m in model if m for it in m[self._key(m)]})
        nxt = (max([u for u in used if u < 10] or [-1]) + 1)
        for s in range(self.nslots):
            out.append(("new", s))
            if self.a.has_ctor_list():
                out.append(("new_with", s, nxt))
            out.append(("decode", s))
            if model[s] is not None:
                n = len(model[s][self._key(model[s])])
                if n < MAXITEMS:
                    out.append(("add", s, nxt))
                if n:
                    if self.a.can_remove():
                        out.append(("remove", s))
                    out.append(("edit", s))
                    out.append(("poke", s))
        if self.t == R.T_PLATCAL:
            # bulk add, and a bulk add that is refused half-way (whatever it leaves behind must stay in THAT block)
            for s in range(self.nslots):
                if model[s] is not None and len(model[s]["items"]) + 2 <= MAXITEMS + 1:
                    out.append(("bulk", s, nxt))
                    out.append(("bulk_refused", s, nxt))
        if self.t in (R.T_DATA3D, R.T_FORCE3D):
            # dst.tracks = src.tracks : the list the getter hands out is assigned to another block; the
            # blocks then hold the same track objects (ordinary aliasing of items) but must not share the list
            for d in range(self.nslots):
                for s2 in range(self.nslots):
                    if d != s2 and model[d] is not None and model[s2] is not None:
                        out.append(("assign_from", d, s2))
        return out

    def _id(self, it):
        d = it[1] if isinstance(it, tuple) else it
        lab = d.get("label", d.get("name"))
        if lab is not None:
            return int("".join(ch for ch in lab if ch.isdigit()) or 0)
        return int(it[0]) if isinstance(it, tuple) else 0

    def describe(self, op):
        if op[0] == "assign_from":
            return f"slot{op[1]}.tracks = slot{op[2]}.tracks"
        return f"{op[0]}[{op[1]}]" + (f"(item {op[2]})" if len(op) > 2 else "")

    def step(self, impl, model, op):
        import copy as _copy

        impl, model = list(impl), _copy.deepcopy(list(model))
        kind, s = op[0], op[1]
        a, t = self.a, self.t
        try:
            if kind == "new":
                impl[s] = a.new()
                model[s] = a.spec([])
            elif kind == "new_with":
                impl[s] = a.new_with([op[2], op[2] + 1])
                model[s] = a.spec([op[2], op[2] + 1])
                if t == R.T_PLATCAL:  # the constructor assigns the channels itself: adopt them, keep the items
                    chans = [int(c) for c, _ in impl[s].platforms]
                    if len(chans) != 2 or len(set(chans)) != 2:
                        raise self.V("operation-effect-wrong", f"constructor-filled block has channels {chans}", "ctor")
                    model[s]["items"] = [(c, it[1]) for c, it in zip(chans, model[s]["items"])]
            elif kind == "decode":
                sp = self._decode_spec()
                impl[s] = specs.lib_decode(t, sp["format"], R.encode_block(sp))[0]
                model[s] = sp
            elif kind == "bulk":
                impl[s].add_platforms([a.item(op[2])])
                chans = [int(c) for c, _ in impl[s].platforms]
                model[s]["items"].append((chans[-1], a.spec([op[2]])["items"][0][1]))
            elif kind == "bulk_refused":
                try:
                    impl[s].add_platforms([a.item(op[2]), "not a platform"])
                    raise ohist.Prune()
                except ohist.Prune:
                    raise
                except Exception:  # noqa: BLE001 - refused; the first item may or may not have been taken
                    pass
                pairs = [(int(c), p) for c, p in impl[s].platforms]
                if len(pairs) == len(model[s]["items"]) + 1:
                    model[s]["items"].append((pairs[-1][0], a.spec([op[2]])["items"][0][1]))
            elif kind == "assign_from":
                src = op[2]
                impl[s].tracks = impl[src].tracks
                k = self._key(model[s])
                model[s][k] = list(model[src][k])      # same item specs (shared, like the objects), own list
            elif kind == "add":
                a.add(impl[s], op[2])
                k = self._key(model[s])
                model[s][k].append(a.spec([op[2]])[k][0])
            elif kind == "remove":
                a.remove_first(impl[s])
                del model[s][self._key(model[s])][0]
            elif kind == "edit":       # relabel the first item (platform data has no label: poke instead)
                k = self._key(model[s])
                it = model[s][k][0]
                d = it[1] if isinstance(it, tuple) else it
                lit = editwalk.lib_items(impl[s], t)[0]
                if t == R.T_PLATDATA:
                    d["torque"][0] = d["torque"][0] + 4096 if not np.isnan(d["torque"][0]) else np.float32(1.5)
                    editwalk.poke(lit, "torque", 0, d["torque"][0])
                    if np.isnan(d["ap"][0]).any():
                        d["ap"][0] = 2.5
                        d["force"][0] = 3.5
                        editwalk.poke(lit, "application_point", 0, np.float32(2.5))
                        editwalk.poke(lit, "force", 0, np.float32(3.5))
                else:
                    key_s, key_l = {R.T_OPT: ("name", "camera_name")}.get(t, ("label", "label"))
                    d[key_s] = d[key_s] + "*"
                    setattr(lit, key_l, getattr(lit, key_l) + "*")
            elif kind == "poke":       # write sample values in place into the LAST item (fills frame 0)
                k = self._key(model[s])
                it = model[s][k][-1]
                d = it[1] if isinstance(it, tuple) else it
                lit = editwalk.lib_items(impl[s], t)[-1]
                if t in gen.RLE_TYPES:
                    for fs, fl in zip(editwalk.RLE_FIELDS[t], editwalk.LIB_FIELDS[t]):
                        cur = np.asarray(d[fs])[0]
                        val = np.float32(9.75) if np.isnan(cur).any() else np.float32(np.asarray(cur).reshape(-1)[0] + 16)
                        d[fs][0] = val
                        editwalk.poke(lit, fl, 0, val)
                elif t == R.T_EVENTS:
                    if len(d["values"]):
                        d["values"][0] = d["values"][0] + 16
                        editwalk.poke(lit, "values", 0, d["values"][0])
                elif t == R.T_PLATCAL:
                    d["size"][0] = d["size"][0] + 16
                    editwalk.poke(lit, "size", 0, d["size"][0])
                elif t == R.T_OPT:
                    d["index"] = d["index"] + 16
                    lit.logical_camera_index = lit.logical_camera_index + 16
        except (core.Violation, ohist.Prune):
            raise
        except Exception as e:  # noqa: BLE001
            raise self.V("operation-raises", f"{self.describe(op)}: {type(e).__name__}: {e}", kind)
        return impl, model

    def observe(self, impl, model, hist):
        last = hist[-1] if hist else None
        for s, (b, m) in enumerate(zip(impl, model)):
            if b is None:
                continue
            want = R.encode_block(m)
            nwant = len(m[self._key(m)])
            try:
                enc = specs.lib_encode(b)
                n_iter = len(self.a.items(b))
                n_len = len(b) if hasattr(b, "__len__") else n_iter
            except Exception as e:  # noqa: BLE001
                raise self.V("slot-unusable", f"slot {s}: {type(e).__name__}: {e}")
            touched = last is not None and last[1] == s
            site = "touched-slot" if touched else "other-slot"
            if n_iter != nwant or n_len != nwant or enc != want:
                if touched and last[0] == "new":
                    clause = "fresh-instance-not-empty"
                elif touched:
                    clause = "operation-effect-wrong"
                else:
                    clause = "instance-changed-by-other"
                what = f"{n_iter} items (len {n_len}), its own history says {nwant}" if (n_iter != nwant or n_len != nwant) else \
                    "the right number of items but other content than its own history gave it"
                raise self.V(clause, f"slot {s} holds {what}; last op {self.describe(last) if last else None}", site)
        # probe: whatever was done so far, an instance constructed without items starts empty
        try:
            probe = self.a.new()
            leftover = len(self.a.items(probe))
        except Exception as e:  # noqa: BLE001
            raise self.V("slot-unusable", f"fresh instance: {type(e).__name__}: {e}")
        if leftover:
            raise self.V("fresh-instance-not-empty", f"after {[self.describe(o) for o in hist]} a block constructed without items "
                                                     f"already holds {leftover} item(s)", "probe")
        # probe: decoding the reference bytes again still yields exactly their content
        sp = self._decode_spec()
        ref = R.encode_block(sp)
        try:
            again = specs.lib_encode(specs.lib_decode(self.t, sp["format"], ref)[0])
        except Exception as e:  # noqa: BLE001
            raise self.V("slot-unusable", f"fresh decode: {type(e).__name__}: {e}")
        if again != ref:
            raise self.V("decode-affected-by-earlier-instance", f"after {[self.describe(o) for o in hist]} decoding the same bytes "
                                                                f"no longer yields their content", "probe")

    def canon(self, impl, model):
        import hashlib

        enc = tuple(None if m is None else hashlib.sha1(R.encode_block(m)).hexdigest() for m in model)
        # which slots hold the *same* item objects (after dst.tracks = src.tracks): a state with shared
        # items is not the same state as one with equal but separate items
        def items(m):
            return [] if m is None else [it[1] if isinstance(it, tuple) else it for it in m[self._key(m)]]
        shared = tuple((i, j, sum(1 for x in items(model[i]) for y in items(model[j]) if x is y))
                       for i in range(len(model)) for j in range(i + 1, len(model)))
        return enc, shared

    def nontrivial(self, model):
        live = [R.encode_block(m) for m in model if m is not None]
        return len(live) >= 2 and len(set(live)) >= 2


TYPES = (R.T_OPT, R.T_EVENTS, R.T_EMG, R.T_DATA3D, R.T_FORCE3D, R.T_PLATCAL, R.T_PLATDATA)


def _events_defaults(acc):
    """Event objects created without values must not share their value container."""
    n = specs.lib()
    acc.n["states"] += 1
    acc.n["transitions"] += 3
    e1, e2 = n.ev.Event("a"), n.ev.Event("b")
    e3 = n.ev.Event("c", [1.0]), n.ev.Event("d", [1.0])
    e3[0].values[0] = 7.0
    if len(e1.values) != 0 or len(e2.values) != 0 or e1.values is e2.values or float(e3[1].values[0]) != 1.0:
        acc.violation("instance-changed-by-other", f"{PROP}:event-values:shared", {"events_defaults": True},
                      "Event objects share their values container")
    else:
        acc.n["traces"] += 1
        acc.outcomes["event-values:independent"] += 1


def _reads_shard(_):
    """Reading the same block twice from a file (index, kind, convenience getter; read-only and write
    context; implicit contexts) yields two objects that can be edited independently."""
    import os

    from .. import env, kdriver

    acc = core.Acc()
    n = specs.lib()
    tmp = env.scratch_dir("c20")
    path = os.path.join(tmp, "r.tdf")
    kinds = (R.T_EVENTS, R.T_DATA3D, R.T_EMG, R.T_FORCE3D, R.T_PLATDATA, R.T_PLATCAL, R.T_OPT)
    recs = [kdriver.known_record(t, 1 if t in (R.T_DATA3D, R.T_EMG, R.T_FORCE3D, R.T_PLATDATA) else 0) for t in kinds]
    recs[1] = kdriver.big_record()      # the 3D block is ~840 KB (a cache only for large blocks would show here)
    with open(path, "wb") as f:
        f.write(R.build_file(14, recs))
    BT = n.block.BlockType
    for mode in ("read-context", "write-context", "no-context"):
        for i, t in enumerate(kinds):
            readers = [("get_block(i)", lambda f, i=i: f.get_block(i)), ("get_block(kind)", lambda f, t=t: f.get_block(BT(t))),
                       ("tdf[i]", lambda f, i=i: f[i])]
            if t in kdriver.GETTERS:
                readers.append((f"tdf.{kdriver.GETTERS[t]}", lambda f, t=t: getattr(f, kdriver.GETTERS[t])))
            for (na, ra), (nb, rb) in [(x, y) for x in readers for y in readers]:
                acc.n["states"] += 1
                acc.n["evaluations"] += 1
                acc.n["nontrivial"] += 1
                acc.n["transitions"] += 3
                tdf = n.tdf.Tdf(path)
                if mode == "write-context":
                    tdf.allow_write()
                wit = {"reads": [mode, R.NAMES[t], na, nb]}
                try:
                    if mode == "no-context":
                        a, b = ra(tdf), rb(tdf)
                        want = specs.lib_encode(rb(tdf))
                        changed = editwalk.scribble(a)
                        got = specs.lib_encode(b)
                        again = specs.lib_encode(rb(tdf))
                    else:
                        with tdf as f:
                            a, b = ra(f), rb(f)
                            want = specs.lib_encode(rb(f))
                            changed = editwalk.scribble(a)
                            got = specs.lib_encode(b)
                            again = specs.lib_encode(rb(f))
                except Exception as e:  # noqa: BLE001
                    acc.violation("slot-unusable", f"{PROP}:reads:{type(e).__name__}", wit, f"{mode} {R.NAMES[t]} {na}/{nb}: {type(e).__name__}: {e}")
                    continue
                if a is b or (changed and got != want):
                    acc.violation("instance-changed-by-other", f"{PROP}:reads:{R.NAMES[t]}:two-reads-share-state:{mode}", wit,
                                  f"{mode}: {na} and {nb} of the {R.NAMES[t]} block returned {'the same object' if a is b else 'objects sharing state'}: "
                                  f"editing the first changed the second")
                elif changed and again != want:
                    acc.violation("decode-affected-by-earlier-instance", f"{PROP}:reads:{R.NAMES[t]}:later-read-sees-edit:{mode}", wit,
                                  f"{mode}: after editing the object returned by {na}, a new {nb} returns the edit")
                else:
                    acc.outcomes[f"reads:{mode}:independent"] += 1
                    acc.n["traces"] += 1
    acc.sample({"reads": "every pair of read paths x 7 kinds x {read ctx, write ctx, no ctx}: edit the first object, compare the second"}, 1)
    return acc


def _observe_readonly(b, t):
    """Every read-only public operation a block offers; exceptions are not this probe's business."""
    probes = [lambda: len(b), lambda: list(iter(b)), lambda: b.nBytes, lambda: repr(b), lambda: b == b, lambda: specs.lib_encode(b)]
    try:
        items = editwalk.lib_items(b, t)
    except Exception:  # noqa: BLE001
        items = []
    for i, it in enumerate(items):
        lab = getattr(it, "label", None)
        probes += [lambda i=i: b[i], lambda it=it: it in b, lambda it=it: it.nBytes, lambda it=it: repr(it)]
        if isinstance(lab, str):
            probes += [lambda lab=lab: b[lab], lambda lab=lab: lab in b]
    for p in probes:
        try:
            p()
        except Exception:  # noqa: BLE001
            pass


def _reach_shard(_):
    """Structural form of the property, for all nine kinds: no mutable object (array memory, list, item
    object, viewport ...) is reachable from two separately created blocks, nor from two items of one
    decoded block.  Every in-place edit goes through such an object."""
    from .. import kdriver, reach

    acc = core.Acc()
    for t in R.WRITABLE:
        for v in (0, 1, 2):
            sp = kdriver._variants(t)[v]
            fmt = sp["format"]
            ref_bytes = R.encode_block(sp)

            def build():
                return specs.build(sp)

            def decode(data=None):
                return specs.lib_decode(t, fmt, data if data is not None else ref_bytes)[0]

            def used_then_empty():
                x = build()
                editwalk.scribble(x)
                specs.lib_encode(x)
                return specs.build(kdriver._variants(t)[2])

            makers = {"built": build, "decoded": decode, "decoded-from-own-bytes": lambda: decode(specs.lib_encode(build())),
                      "empty-after-use": used_then_empty}
            for na, nb in (("built", "built"), ("decoded", "decoded"), ("built", "decoded"), ("decoded", "decoded-from-own-bytes"),
                           ("empty-after-use", "empty-after-use"), ("built", "empty-after-use")):
                acc.n["states"] += 1
                acc.n["evaluations"] += 1
                acc.n["transitions"] += 2
                if v < 2:
                    acc.n["nontrivial"] += 1
                wit = {"reach": [t, v, na, nb]}
                try:
                    a, b = makers[na](), makers[nb]()
                    for x in (a, b):      # use both blocks the read-only way first (whatever that caches)
                        _observe_readonly(x, t)
                    sh = reach.shared(a, b)
                    inner = []
                    if nb.startswith("decoded"):
                        items = editwalk.lib_items(b, t)
                        for i in range(len(items)):
                            for j in range(i + 1, len(items)):
                                inner += [(f"item {i}{x}", f"item {j}{y}", w) for x, y, w in reach.shared(items[i], items[j])]
                except Exception as e:  # noqa: BLE001
                    acc.violation("slot-unusable", f"{PROP}:reach:{R.NAMES[t]}:{type(e).__name__}", wit, f"{R.NAMES[t]} variant {v} {na}/{nb}: {type(e).__name__}: {e}")
                    continue
                if sh:
                    pa, pb, what = sh[0]
                    acc.violation("instances-share-mutable-object", f"{PROP}:reach:{R.NAMES[t]}:{na}/{nb}:{what}", wit,
                                  f"{R.NAMES[t]} (variant {v}): a {na} block and a separately {nb} block both reach the same {what}: "
                                  f"first{pa} / second{pb} ({len(sh)} shared in all)")
                elif inner:
                    pa, pb, what = inner[0]
                    acc.violation("items-share-mutable-object", f"{PROP}:reach:{R.NAMES[t]}:items:{what}", wit,
                                  f"{R.NAMES[t]} (variant {v}, {nb}): {pa} and {pb} reach the same {what}")
                else:
                    acc.outcomes[f"reach:{na}/{nb}:disjoint"] += 1
                    acc.n["traces"] += 1
    acc.sample({"reach": "9 kinds x 3 variants x 6 pairs of separately created blocks: sets of reachable mutable objects are disjoint"}, 1)
    return acc


def _shard(shard):
    if shard == "reads":
        return _reads_shard(shard)
    if shard == "reach":
        return _reach_shard(shard)
    t, nslots = shard
    acc = core.Acc()
    depth = {"quick": 5, "thorough": 6}[_shard.tier]
    m = ShareMachine(t, nslots)
    ohist.explore(m, acc, depth=depth, tag=f"{R.NAMES[t]}/{nslots}slots:", wit_extra={"type": t, "nslots": nslots}, copy_states=False,
                  max_states=30000, stop_on_violation=True)
    if t == R.T_EVENTS:
        _events_defaults(acc)
    return acc


def run(tier):
    _shard.tier = tier
    ns = 2 if tier == "quick" else 3
    shards = ["reads", "reach"] + [(t, 2) for t in TYPES] + ([(t, 3) for t in TYPES] if ns == 3 else [])
    return core.pmap(__name__, "_shard", shards)


def replay(w):
    if w.get("reads"):
        acc = _reads_shard(None)
        for v in acc.violations:
            if v["witness"] == w:
                return core.Violation(v["clause"], v["sig"], w, v["detail"])
        return None
    if w.get("reach"):
        acc = _reach_shard(None)
        for v in acc.violations:
            if v["witness"] == w:
                return core.Violation(v["clause"], v["sig"], w, v["detail"])
        return None
    if w.get("events_defaults"):
        acc = core.Acc()
        _events_defaults(acc)
        return core.Violation(acc.violations[0]["clause"], acc.violations[0]["sig"], w, "") if acc.violations else None
    return ohist.run_witness(ShareMachine(w["type"], w["nslots"]), w)
