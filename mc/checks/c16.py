"""C16 - no track of the wrong length enters a block; list assignment is all-or-nothing.

State-space exploration of Data3D, ForceTorque3D (add_track, tracks = L) and EMG (addSignal):
BFS over add(good), add(one frame too many / too few / zero frames), add(non-track: None, str,
ndarray, a track of another class) and `tracks = L` for every list L of length <= 3 over
{good, wrong-length, non-track} (40 lists) plus a tuple, a generator and non-iterables; on blocks
of 1 and 3 frames starting empty or pre-filled.  Model: the list of labels."""
import itertools

import numpy as np

from .. import core, gen, ohist, specs
from .. import tdfref as R

PROP = "C16"
RULE = ("[plus, per class, a 200 000-frame block with add / list assignment of tracks off by one either way] " +"states = (class, frame count, start empty|pre-filled, number of tracks 0..4) reached by BFS to the fixpoint; "
        "~55 ops per state (8 adds, 47 assignments); oracle: refused => exception and tracks/iteration/encoding "
        "unchanged, accepted => exactly the new list; invariant: every track has the block's frame count; non-trivial "
        "= state with >= 1 track (prior content)")
ASSUMPTIONS = [
    "mutating the list object returned by the `tracks` getter directly (tracks.append) is not 'adding a track' and is "
    "not in the alphabet",
    "which exception class refuses an element is not part of the oracle",
]
MAXTRACKS = 4


def good_track(t, n, k):
    lab = f"g{k}"
    if t == R.T_DATA3D:
        return gen.mk_track3d(n, tuple([True] * n), lab, k)
    if t == R.T_FORCE3D:
        return gen.mk_ftrack(n, tuple([True] * n), lab, k)
    return gen.mk_emgsig(n, tuple([True] * n), lab, k)


class TrackMachine(ohist.Machine):
    init_in_key = True

    def __init__(self, t, n):
        self.t, self.n = t, n
        self.name = f"{R.NAMES[t]}/n{n}"

    def block(self):
        ns = specs.lib()
        g = gen.geom()
        if self.t == R.T_DATA3D:
            return ns.d3.Data3D(100, self.n, g["vol"], g["rot"], g["trans"])
        if self.t == R.T_FORCE3D:
            return ns.f3.ForceTorque3D(100, self.n, g["vol"], g["rot"], g["trans"])
        return ns.emg.EMG(1000, self.n)

    def base(self):
        return {R.T_DATA3D: gen.data3d, R.T_FORCE3D: gen.force3d}.get(self.t, lambda n, x: gen.emg(n, []))(self.n, [])

    def element(self, kind, k=0):
        """kind: good | long | short | zero | regrown | none | str | array | alien | alien_sibling | alien_block"""
        t, n = self.t, self.n
        if kind == "good":
            return specs.build_item(t, good_track(t, n, k), self.base())
        if kind in ("long", "short", "zero"):
            m = {"long": n + 1, "short": n - 1, "zero": 0}[kind]
            sp = good_track(t, m, k)
            sp["label"] = f"bad-{kind}"
            return specs.build_item(t, sp, self.base())
        if kind == "regrown":
            # built with the right length, then its arrays are replaced by longer ones (public
            # attributes): its real frame count no longer matches the block
            x = specs.build_item(t, good_track(t, n, k), self.base())
            for attr in ("nFrames", "nSamples", "nBytes"):   # the track has been looked at before it changes
                getattr(x, attr, None)
            probe = self.block()
            try:
                self.add(probe, x)                          # ... and has even been accepted by another block
            except Exception:  # noqa: BLE001
                pass
            longer = specs.build_item(t, good_track(t, n + 2, k), self.base())
            for attr in ("data", "application_point", "force", "torque"):
                if hasattr(longer, attr) and isinstance(getattr(longer, attr), np.ndarray):
                    setattr(x, attr, getattr(longer, attr))
            x.label = "bad-regrown"
            return x
        if kind == "none":
            return None
        if kind == "str":
            return "g0"
        if kind == "array":
            return np.zeros((n, 3), "<f4")
        if kind == "alien":
            other = R.T_EMG if t != R.T_EMG else R.T_DATA3D
            return specs.build_item(other, good_track(other, n, k), {"format": 1})
        if kind == "alien_sibling":
            # the nearest relative: same frame count, same attribute names, other class
            if t == R.T_EMG:
                return self.block()                      # an EMG block has nSamples and nBytes like a signal
            other = R.T_FORCE3D if t == R.T_DATA3D else R.T_DATA3D
            return specs.build_item(other, good_track(other, n, k), {"format": 1})
        if kind == "alien_block":
            b = self.block()                             # a whole block of this kind: nFrames == n, has nBytes, iterable
            if t != R.T_EMG:
                self.add(b, specs.build_item(t, good_track(t, n, k), self.base()))
            return b
        raise ValueError(kind)

    def _other_block(self):
        ns = specs.lib()
        g = gen.geom()
        if self.t == R.T_DATA3D:
            return ns.d3.Data3D(100, self.n + 2, g["vol"], g["rot"], g["trans"])
        return ns.f3.ForceTorque3D(100, self.n + 2, g["vol"], g["rot"], g["trans"])

    def _other_track(self, k):
        sp = good_track(self.t, self.n + 2, 50 + k)
        sp["label"] = f"other{k}"
        return specs.build_item(self.t, sp, self.base())

    def add(self, b, x, channel=None):
        if self.t == R.T_EMG:
            return b.addSignal(x) if channel is None else b.addSignal(x, channel=channel)
        return b.add_track(x)

    def initial(self):
        def empty():
            return self.block(), []

        def filled():
            b = self.block()
            for k in (90, 91):
                self.add(b, self.element("good", k))
            return b, ["g90", "g91"]

        return [("empty", empty), ("filled", filled)]

    def labels(self, b):
        via_iter = [x.label for x in b]
        if self.t != R.T_EMG:
            via_prop = [x.label for x in b.tracks]
            if via_prop != via_iter:
                raise self.V("views-disagree", f"tracks {via_prop} vs iteration {via_iter}")
        if len(b) != len(via_iter):
            raise self.V("views-disagree", f"len {len(b)} vs {len(via_iter)} iterated")
        return via_iter

    def V(self, clause, detail, extra=""):
        return core.Violation(clause, f"{PROP}:{R.NAMES[self.t]}:{clause}{(':' + extra) if extra else ''}", None, detail)

    def ops(self, model):
        out = []
        if len(model) < MAXTRACKS:
            out.append(("add", "good"))
        kinds_bad = ["long", "short", "zero", "regrown", "none", "str", "array", "alien", "alien_sibling", "alien_block"]
        if self.n - 1 == 0:
            kinds_bad.remove("short")
        out += [("add", k) for k in kinds_bad]
        if self.t == R.T_EMG:  # the same with an explicit (free) channel
            if len(model) < MAXTRACKS:
                out.append(("add", "good", "chan"))
            out += [("add", k, "chan") for k in kinds_bad]
        if self.t != R.T_EMG:
            alpha = ("good", "long", "alien")
            for L in range(0, 4):
                for combo in itertools.product(alpha, repeat=L):
                    out.append(("assign", combo))
            out += [("assign", ("good", "none")), ("assign", ("zero", "good")), ("assign", ("good", "regrown")),
                    ("assign_tuple",), ("assign_gen_bad",),
                    ("assign_noniter", "none"), ("assign_noniter", "int"), ("assign_noniter", "track"),
                    ("assign_self", "same"), ("assign_self", "copy"), ("assign_self", "reversed"), ("assign_self", "generator"),
                    ("assign_self", "plus-bad"),
                    # a list obtained from the getter EARLIER, assigned back after something else was assigned in between
                    ("save",), ("assign_saved",),
                    # a second block with another frame count: its (empty) list is assigned here, then it grows
                    ("assign_from_other",), ("other_add",)]
        return out

    def describe(self, op):
        arg = ','.join(map(str, op[1])) if len(op) > 1 and isinstance(op[1], tuple) else (op[1] if len(op) > 1 else '')
        return f"{op[0]}({arg}{', explicit channel' if len(op) > 2 else ''})"

    def step(self, b, model, op):
        model = list(model)
        before = self.labels(b)
        enc_before = specs.lib_encode(b)
        fresh = iter(range(len(model) * 10 + 100, 10 ** 6))
        kind = op[0]

        def mk(k):
            if k == "good":
                idx = next(fresh)
                return self.element("good", idx), f"g{idx}"
            return self.element(k), None

        err = None
        if kind == "add":
            x, lab = mk(op[1])
            try:
                self.add(b, x, channel=(1000 + len(model)) if len(op) > 2 else None)
            except Exception as e:  # noqa: BLE001
                err = e
            if op[1] == "good":
                if err is not None:
                    raise self.V("valid-track-refused", f"{type(err).__name__}: {err}")
                model.append(lab)
            else:
                if err is None:
                    raise self.V("wrong-element-accepted", f"add({op[1]}) accepted; block now {self._safe_labels(b)}", op[1])
                self._unchanged(b, before, enc_before, f"refused add({op[1]})")
        elif kind == "save":
            b.__dict__["_verif_saved"] = b.tracks           # the caller keeps what the getter returned
            return b, model
        elif kind == "assign_saved":
            saved = b.__dict__.get("_verif_saved")
            if saved is None:
                return b, model
            expect = [x.label for x in saved]               # what the caller's list holds right now
            ok_len = all((x.nFrames if hasattr(x, "nFrames") else -1) == self.n for x in saved)
            try:
                b.tracks = saved
            except Exception as e:  # noqa: BLE001
                err = e
            if err is not None:
                raise self.V("valid-list-refused", f"tracks = <list saved earlier, holding {expect}>: {type(err).__name__}: {err}", "saved")
            got = self.labels(b)
            if ok_len and got != expect:
                raise self.V("assignment-not-exact", f"tracks = <list saved earlier, holding {expect}>: block now holds {got}", "saved")
            model = got
        elif kind == "assign_from_other":
            other = b.__dict__.setdefault("_verif_other", self._other_block())
            src = other.tracks
            expect = [x.label for x in src]
            try:
                b.tracks = src
            except Exception as e:  # noqa: BLE001
                err = e
            if expect:   # the other block's tracks have another length: all must be refused
                if err is None:
                    raise self.V("invalid-list-accepted", f"tracks = <tracks of a block with {self.n + 2} frames> accepted", "other-block")
                self._unchanged(b, before, enc_before, "refused tracks = other block's tracks")
            else:
                if err is not None:
                    raise self.V("valid-list-refused", f"tracks = <empty list of another block>: {type(err).__name__}: {err}", "other-block")
                model = []
        elif kind == "other_add":
            other = b.__dict__.setdefault("_verif_other", self._other_block())
            if len(other.tracks) < 2:
                other.add_track(self._other_track(len(other.tracks)))   # valid for the OTHER block only
            # nothing was asked of this block: it must be what it was
            self._unchanged(b, before, enc_before, "add_track on ANOTHER block (whose list had been assigned here)")
        elif kind == "assign_self":
            # the value is derived from the block's own current list
            cur = b.tracks
            items = list(cur)
            how = op[1]
            value = {"same": cur, "copy": list(cur), "reversed": list(reversed(cur)), "generator": (x for x in cur),
                     "plus-bad": list(cur) + [self.element("long")]}[how]
            expect = {"same": list(model), "copy": list(model), "reversed": list(reversed(model)), "generator": list(model)}.get(how)
            try:
                b.tracks = value
            except Exception as e:  # noqa: BLE001
                err = e
            if expect is not None:
                if err is not None:
                    raise self.V("valid-list-refused", f"tracks = <{how} of its own tracks>: {type(err).__name__}: {err}", "self")
                got = self.labels(b)
                if got != expect:
                    raise self.V("assignment-not-exact", f"tracks = <{how} of its own tracks {model}>: block now holds {got}", "self")
                model = expect
            else:
                if err is None:
                    raise self.V("invalid-list-accepted", f"tracks = own tracks + wrong-length accepted; block now {self._safe_labels(b)}", "self")
                self._unchanged(b, before, enc_before, "refused tracks = own tracks + wrong-length")
        else:
            if kind == "assign":
                elems = [mk(k) for k in op[1]]
                value = [x for x, _ in elems]
                all_good = all(lab is not None for _, lab in elems)
                new_labels = [lab for _, lab in elems]
            elif kind == "assign_tuple":
                elems = [mk("good"), mk("good")]
                value = tuple(x for x, _ in elems)
                all_good, new_labels = True, [lab for _, lab in elems]
            elif kind == "assign_gen_bad":
                elems = [mk("good"), mk("long")]
                value = (x for x, _ in elems)
                all_good, new_labels = False, None
            else:
                value = {"none": None, "int": 7, "track": self.element("good", 5)}[op[1]]
                all_good, new_labels = False, None
            try:
                b.tracks = value
            except Exception as e:  # noqa: BLE001
                err = e
            if all_good:
                if err is not None:
                    raise self.V("valid-list-refused", f"tracks = {op[1:]}: {type(err).__name__}: {err}")
                got = self.labels(b)
                if got != new_labels:
                    raise self.V("assignment-not-exact", f"assigned {new_labels}, block holds {got}")
                if any(x is not y for x, y in zip(b.tracks, value)):
                    raise self.V("assignment-not-exact", "block holds other objects than the assigned ones")
                model = new_labels
            else:
                if err is None:
                    raise self.V("invalid-list-accepted", f"tracks = {self.describe(op)} accepted; block now {self._safe_labels(b)}",
                                 "noniter" if kind == "assign_noniter" else "element")
                self._unchanged(b, before, enc_before, f"refused tracks = {self.describe(op)}")
        return b, model

    def _safe_labels(self, b):
        try:
            return [getattr(x, "label", repr(x)[:20]) for x in b]
        except Exception as e:  # noqa: BLE001
            return f"<{type(e).__name__}>"

    def _unchanged(self, b, before, enc_before, what):
        try:
            now = self.labels(b)
            enc = specs.lib_encode(b)
        except core.Violation:
            raise
        except Exception as e:  # noqa: BLE001
            raise self.V("refusal-left-block-broken", f"{what}: block no longer usable: {type(e).__name__}: {e}")
        if now != before or enc != enc_before:
            raise self.V("refusal-changed-block", f"{what}: tracks {before} -> {now}")

    def observe(self, b, model, hist):
        got = self.labels(b)
        if got != model:
            raise self.V("tracks!=model", f"block holds {got}, history says {model}")
        for x in b:
            n = x.nSamples if self.t == R.T_EMG else x.nFrames
            real = [len(getattr(x, a)) for a in ("data", "application_point", "force", "torque")
                    if isinstance(getattr(x, a, None), np.ndarray)]
            if n != self.n or any(r != self.n for r in real):
                raise self.V("wrong-length-track-inside", f"track {x.label!r} reports {n} frames, arrays have {real}, block has {self.n}")
        try:
            data = specs.lib_encode(b)
            if int(b.nBytes) != len(data):
                raise self.V("block-missized", f"nBytes {b.nBytes} vs {len(data)}")
        except core.Violation:
            raise
        except Exception as e:  # noqa: BLE001
            raise self.V("block-unencodable", f"{type(e).__name__}: {e}")

    def canon(self, b, model):
        # all tracks inside are valid and pairwise distinct; the block's future only depends on how
        # many there are (labels of fresh tracks differ from history to history)
        saved = b.__dict__.get("_verif_saved")
        other = b.__dict__.get("_verif_other")
        saved_state = None if saved is None else ("current" if saved is b.tracks else ("stale", len(saved)))
        other_state = None if other is None else (len(other.tracks), other.tracks is b.tracks)
        return (len(model), saved_state, other_state)

    def nontrivial(self, model):
        return len(model) >= 1


BIG_N = 200_000


def _big_shard(t):
    """The same refusals on a long block (a length comparison with a relative tolerance, or in a narrow
    integer / float type, only goes wrong when the numbers are large): n = 200 000, off by one either way."""
    acc = core.Acc()
    m = TrackMachine(t, BIG_N)
    n = BIG_N

    def tr(length, k):
        if t == R.T_DATA3D:
            sp = {"label": f"t{k}", "data": gen.filler((length, 3), k)}
        elif t == R.T_FORCE3D:
            sp = {"label": f"t{k}", "ap": gen.filler((length, 3), k), "force": gen.filler((length, 3), k + 7), "torque": gen.filler((length, 3), k + 13)}
        else:
            sp = {"label": f"t{k}", "data": gen.filler((length,), k)}
        return specs.build_item(t, sp, m.base())

    def labels(b):
        return [x.label for x in b]

    b = m.block()
    steps = [("add", n + 1), ("add", n - 1), ("add", n)]
    if t != R.T_EMG:
        steps += [("assign", (n, n + 1)), ("assign", (n - 1,)), ("assign", (n + 1, n)), ("assign", (n, n)), ("assign", (n, n - 1, n))]
    k = 0
    for what, arg in steps:
        before = labels(b)
        acc.n["states"] += 1
        acc.n["evaluations"] += 1
        acc.n["nontrivial"] += 1
        acc.n["transitions"] += 1
        wit = {"big": True, "type": t, "step": [what, list(arg) if isinstance(arg, tuple) else arg]}
        lens = [arg] if what == "add" else list(arg)
        items = []
        for L in lens:
            k += 1
            items.append(tr(L, k))
        valid = all(L == n for L in lens)
        err = None
        try:
            if what == "add":
                m.add(b, items[0])
            else:
                b.tracks = items
        except Exception as e:  # noqa: BLE001
            err = e
        after = labels(b)
        desc = f"{R.NAMES[t]} block of {n} frames, {what} of lengths {lens}"
        sizes = [int(getattr(x, "nFrames", getattr(x, "nSamples", -1))) for x in b]
        if any(z != n for z in sizes):
            acc.violation("wrong-length-track-inside", f"{PROP}:{R.NAMES[t]}:big:wrong-length-inside:{what}", wit, f"{desc}: block now holds lengths {sizes}")
        elif not valid and err is None:
            acc.violation("wrong-element-accepted", f"{PROP}:{R.NAMES[t]}:big:accepted:{what}", wit, f"{desc}: accepted")
        elif not valid and after != before:
            acc.violation("refused-request-changed-block", f"{PROP}:{R.NAMES[t]}:big:changed:{what}", wit, f"{desc}: refused, block {before} -> {after}")
        elif valid and err is not None:
            acc.violation("valid-request-refused", f"{PROP}:{R.NAMES[t]}:big:refused:{what}", wit, f"{desc}: {type(err).__name__}: {err}")
        elif valid and after != (before + [x.label for x in items] if what == "add" else [x.label for x in items]):
            acc.violation("valid-request-wrong-result", f"{PROP}:{R.NAMES[t]}:big:result:{what}", wit, f"{desc}: block {before} -> {after}")
        else:
            acc.outcomes[f"big:{R.NAMES[t]}:{what}:{'installed' if valid else 'refused'}"] += 1
            acc.n["traces"] += 1
    acc.sample({"big": f"{R.NAMES[t]} block of {n} frames: add / assign with lengths n-1, n, n+1"}, 1)
    return acc


def _decode_shard(t):
    """The other way into a block: decoding.  Bytes whose header declares fewer frames than a track's runs
    cover (other software's bug, a damaged file) are refused or yield tracks of the block's own length - never a
    block that holds a longer track - and a zero-frame block takes zero-frame tracks and nothing else."""
    import struct

    acc = core.Acc()
    off = {R.T_DATA3D: 0, R.T_FORCE3D: 12, R.T_EMG: 12}[t]
    bias = 49 if t == R.T_EMG else 0      # the EMG header stores the sample count minus 49
    T = True
    for n, declared, masks in ((10, 8, [tuple([T] * 10)]), (10, 8, [tuple([T] * 4 + [False] * 6), tuple([T] * 10)]),
                               (6, 5, [tuple([False] * 5 + [T])]), (3, 1, [(T, T, T), (T, False, T)]), (4, 0, [(T, T, T, T)])):
        sp = gen.rle_block(t, n, masks, chans=[5, 1])
        data = bytearray(R.encode_block(sp))
        struct.pack_into("<i", data, off, declared - bias)
        acc.n["states"] += 1
        acc.n["evaluations"] += 1
        acc.n["nontrivial"] += 1
        acc.n["transitions"] += 1
        wit = {"decode": [t, n, declared, [list(m) for m in masks]]}
        desc = f"{R.NAMES[t]} bytes declaring {declared} frames with runs over {n} frames ({len(masks)} track(s))"
        try:
            b = specs.lib_decode(t, sp["format"], bytes(data))[0]
        except Exception:  # noqa: BLE001
            acc.outcomes[f"decode:{R.NAMES[t]}:refused"] += 1
            acc.n["traces"] += 1
            continue
        try:
            own = int(getattr(b, "nFrames", getattr(b, "nSamples", -1)))
            sizes = [int(getattr(x, "nFrames", getattr(x, "nSamples", -1))) for x in b]
        except Exception as e:  # noqa: BLE001
            acc.violation("wrong-length-track-inside", f"{PROP}:{R.NAMES[t]}:decode:unusable", wit, f"{desc}: decoded, then {type(e).__name__}: {e}")
            continue
        if any(z != own for z in sizes):
            acc.violation("wrong-length-track-inside", f"{PROP}:{R.NAMES[t]}:decode:wrong-length-inside", wit,
                          f"{desc}: decoded to a block of {own} frames holding tracks of {sizes} frames")
        else:
            acc.outcomes[f"decode:{R.NAMES[t]}:accepted-consistent"] += 1
            acc.n["traces"] += 1
    # zero frames: the degenerate length is a length like any other
    m = TrackMachine(t, 0)

    def tr(length, k):
        if t == R.T_DATA3D:
            spx = {"label": f"z{k}", "data": gen.filler((length, 3), k)}
        elif t == R.T_FORCE3D:
            spx = {"label": f"z{k}", "ap": gen.filler((length, 3), k), "force": gen.filler((length, 3), k + 7), "torque": gen.filler((length, 3), k + 13)}
        else:
            spx = {"label": f"z{k}", "data": gen.filler((length,), k)}
        return specs.build_item(t, spx, m.base())

    try:
        b = m.block()
        steps = [("add", 1, False), ("add", 0, True), ("add", 2, False), ("add", 0, True)]
        for k, (what, length, valid) in enumerate(steps):
            acc.n["states"] += 1
            acc.n["evaluations"] += 1
            acc.n["nontrivial"] += 1
            acc.n["transitions"] += 1
            before = [x.label for x in b]
            wit = {"decode": [t, "zero", k]}
            try:
                x = tr(length, k)
            except Exception:  # noqa: BLE001 - a zero-length track that cannot even be constructed: nothing to add
                acc.outcomes[f"zero:{R.NAMES[t]}:track-not-constructible"] += 1
                acc.n["traces"] += 1
                continue
            err = None
            try:
                m.add(b, x)
            except Exception as e:  # noqa: BLE001
                err = e
            after = [y.label for y in b]
            desc = f"{R.NAMES[t]} block of 0 frames, add of a {length}-frame track"
            if not valid and (err is None or after != before):
                acc.violation("wrong-element-accepted" if err is None else "refused-request-changed-block", f"{PROP}:{R.NAMES[t]}:zero:{'accepted' if err is None else 'changed'}", wit,
                              f"{desc}: {'accepted' if err is None else 'refused'}; block {before} -> {after}")
            elif valid and (err is not None or after != before + [x.label]):
                acc.violation("valid-request-refused", f"{PROP}:{R.NAMES[t]}:zero:refused", wit, f"{desc}: {type(err).__name__ if err else 'no error'}; block {before} -> {after}")
            else:
                acc.outcomes[f"zero:{R.NAMES[t]}:{'installed' if valid else 'refused'}"] += 1
                acc.n["traces"] += 1
    except Exception as e:  # noqa: BLE001 - a zero-frame block that cannot be constructed at all
        acc.outcomes[f"zero:{R.NAMES[t]}:block-not-constructible:{type(e).__name__}"] += 1
    acc.sample({"decode": f"{R.NAMES[t]}: header frame count below what the runs cover; zero-frame block"}, 1)
    return acc


def _shard(shard):
    if shard[0] == "big":
        return _big_shard(shard[1])
    if shard[0] == "decode":
        return _decode_shard(shard[1])
    t, n = shard
    acc = core.Acc()
    m = TrackMachine(t, n)
    ohist.explore(m, acc, depth=None, tag=f"{m.name}:", wit_extra={"type": t, "n": n}, copy_states=False)
    return acc


def run(tier):
    _shard.tier = tier
    kinds = (R.T_DATA3D, R.T_FORCE3D, R.T_EMG)
    return core.pmap(__name__, "_shard", [("big", t) for t in kinds] + [("decode", t) for t in kinds] + [(t, n) for t in kinds for n in (1, 3)])


def replay(w):
    if w.get("decode"):
        acc = _decode_shard(w["decode"][0])
        for v in acc.violations:
            if v["witness"] == w:
                return core.Violation(v["clause"], v["sig"], w, v["detail"])
        return None
    if w.get("big"):
        acc = _big_shard(w["type"])
        for v in acc.violations:
            if v["witness"]["step"] == w["step"]:
                return core.Violation(v["clause"], v["sig"], w, v["detail"])
        return None
    return ohist.run_witness(TrackMachine(w["type"], w["n"]), w)
