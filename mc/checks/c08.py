"""C08 - files are only modified inside an explicitly write-enabled context.

State machine on ONE real Tdf object over a two-slot file holding one block: operations =
allow_write(), enter, exit, exit-with-exception (the with-statement protocol driven directly),
the eight public mutators and every public reader.  BFS to the fixpoint, every state rebuilt by
replay on a fresh file + fresh object.  Model: aw ("allow_write() called since the last context
exit"), ctx, ctx_w ("the context was entered write-enabled").  Oracle per transition: bytes
change only for a mutator in a write-enabled context; a mutator anywhere else raises and leaves
the bytes alone; a reader never changes bytes; outside an explicit context no descriptor on the
file stays open (counted in /proc/self/fd)."""
import hashlib
import os

import numpy as np

from .. import core, env, gen, kdriver, ohist, specs
from .. import tdfref as R

PROP = "C08"
RULE = ("states = (aw, ctx, ctx_w, set of live kinds, how the last context was left, a call failed inside the context, "
        "implementation mode flags) reached by BFS to the fixpoint; in every state all "
        "4 mode ops + 8 mutators + 26 readers are applied; oracle on file bytes (sha256) + exception + open "
        "descriptors per transition; non-trivial = transition taken in a state other than the initial one")
ASSUMPTIONS = [
    "the one zone the statement leaves open - allow_write(), then a reader outside any context (which opens and closes "
    "an implicit one), then `with` - is accepted either way (mutators may succeed or be refused there)",
    "nested re-entry of an open context is unsupported by the library and not in the alphabet",
    "a reader may raise (absent kind, comparison before any context): only bytes and descriptors are judged",
]
MUTATORS = ("add_block", "remove_block", "replace_block", "set_data3D", "set_force_and_torque", "set_force_platforms_data",
            "set_events", "set_emg", "replace_block_same", "set_same")
# the last two ask for what is already there (same block, same comment): still a mutation request - outside a
# write context it must be refused like any other; inside one it may leave the bytes as they are
IDEMPOTENT = ("replace_block_same", "set_same")
SETTER_TYPE = {"set_data3D": R.T_DATA3D, "set_force_and_torque": R.T_FORCE3D, "set_force_platforms_data": R.T_PLATDATA,
               "set_events": R.T_EVENTS, "set_emg": R.T_EMG}
READERS = ("blocks", "get_block_0", "get_block_1", "get_block_type", "getitem_0", "getitem_type", "data3D", "force_and_torque",
           "force_platforms_data", "events", "emg", "calibrationData", "has_data3D", "has_force_and_torque", "has_events",
           "has_emg", "has_force_platforms_data", "len", "nBytes", "eq_self", "eq_other", "ne_other", "repr", "str", "copy",
           "entries_attr")
MODE_OPS = ("allow_write", "enter", "exit", "exit_exc")


class Impl:
    def __init__(self, directory):
        n = specs.lib()
        self.dir = directory
        self.path = os.path.join(directory, "m.tdf")
        self.other = os.path.join(directory, "o.tdf")
        ev = kdriver.known_record(R.T_EVENTS, 0, "first")
        for p in (self.path, self.other):
            with open(p, "wb") as f:
                f.write(R.build_file(2, [ev]))
        self.tdf = n.tdf.Tdf(self.path)
        self.entered = False

    def close(self):
        h = getattr(self.tdf, "handler", None)
        try:
            if h is not None and not h.closed:
                h.close()
        except Exception:  # noqa: BLE001
            pass

    def sha(self):
        with open(self.path, "rb") as f:
            return hashlib.sha256(f.read()).hexdigest()

    def live(self):
        with open(self.path, "rb") as f:
            p = R.parse_file(f.read())
        return tuple(sorted(e["type"] for e in p["entries"] if e["type"]))


class ModeMachine(ohist.Machine):
    light = False

    def __init__(self, reader_slice=None):
        self.dirs = []
        # readers checked by this instance (all shards explore the same mode/mutator skeleton)
        self.readers = list(READERS) if reader_slice is None else [r for i, r in enumerate(READERS) if i % reader_slice[1] == reader_slice[0]]
        if "has_events" not in self.readers:
            self.readers.append("has_events")  # one reader is needed to reach the 'maybe' zone

    def V(self, clause, detail, extra=""):
        return core.Violation(clause, f"{PROP}:{clause}{(':' + extra) if extra else ''}", None, detail)

    def initial(self):
        def make():
            if not self.dirs:
                self.dirs.append(env.scratch_dir("c08"))
            self.count = getattr(self, "count", 0) + 1
            d = os.path.join(self.dirs[0], f"r{self.count}")
            os.mkdir(d)
            return Impl(d), {"aw": False, "ctx": False, "ctx_w": False, "live": (R.T_EVENTS,), "last_exit": None, "failed_in_ctx": False}
        return [("fresh", make)]

    def ops(self, model):
        out = []
        out.append("allow_write")
        if model["ctx"]:
            out += ["exit", "exit_exc"]
        else:
            out.append("enter")
        out += list(MUTATORS) + list(self.readers)
        return out

    def describe(self, op):
        return op

    def _mutate(self, impl, op, live):
        """Issue a *valid* request of this mutator for the current content.  -> callable"""
        tdf = impl.tdf
        BT = specs.lib().block.BlockType
        present = lambda t: t in live  # noqa: E731
        full = len(live) >= 2
        if op == "add_block":
            t = next((t for t in (R.T_EMG, R.T_DATA3D, R.T_OPT) if not present(t)), None)
            if full or t is None:
                return None
            return lambda: tdf.add_block(kdriver.make_block(t, 0), "added")
        if op == "remove_block":
            if not live:
                return None
            return lambda: tdf.remove_block(BT(live[0]))
        def other_variant(t):
            """A variant whose bytes differ from what is stored now (a positive control must be
            able to see an effect)."""
            with open(impl.path, "rb") as f:
                data = f.read()
            e = next((e for e in R.parse_file(data)["entries"] if e["type"] == t), None)
            return 0 if e is not None and R.payload(data, e) == kdriver.variant(t, 1)[1] else 1

        if op in IDEMPOTENT:
            with open(impl.path, "rb") as f:
                data = f.read()
            for e in R.parse_file(data)["entries"]:
                t = e["type"]
                if t not in R.WRITABLE or (op == "set_same" and t not in kdriver.SETTERS):
                    continue
                for v in (0, 1):
                    if R.payload(data, e) == kdriver.variant(t, v)[1]:
                        if op == "set_same":
                            return lambda: setattr(tdf, kdriver.SETTERS[t], kdriver.make_block(t, v))
                        return lambda: tdf.replace_block(kdriver.make_block(t, v))
            return None
        if op == "replace_block":
            t = next((t for t in live if t in R.WRITABLE), None)
            if t is None:
                return None
            v = other_variant(t)
            return lambda: tdf.replace_block(kdriver.make_block(t, v))
        t = SETTER_TYPE[op]
        if not present(t) and full:
            return None
        v = other_variant(t)
        return lambda: setattr(tdf, kdriver.SETTERS[t], kdriver.make_block(t, v))

    def _read(self, impl, op):
        tdf = impl.tdf
        n = specs.lib()
        BT = n.block.BlockType
        if op == "blocks":
            return lambda: tdf.blocks
        if op == "get_block_0":
            return lambda: tdf.get_block(0)
        if op == "get_block_1":
            return lambda: tdf.get_block(1)
        if op == "get_block_type":
            return lambda: tdf.get_block(BT(R.T_EVENTS))
        if op == "getitem_0":
            return lambda: tdf[0]
        if op == "getitem_type":
            return lambda: tdf[BT(R.T_EMG)]
        if op in ("data3D", "force_and_torque", "force_platforms_data", "events", "emg", "calibrationData", "has_data3D",
                  "has_force_and_torque", "has_events", "has_emg", "has_force_platforms_data", "nBytes"):
            return lambda: getattr(tdf, op)
        if op == "len":
            return lambda: len(tdf)
        if op == "eq_self":
            return lambda: tdf == tdf
        if op == "eq_other":
            return lambda: tdf == n.tdf.Tdf(impl.other)
        if op == "ne_other":
            return lambda: tdf != n.tdf.Tdf(impl.other)
        if op == "repr":
            return lambda: repr(tdf)
        if op == "str":
            return lambda: str(tdf)
        if op == "entries_attr":
            return lambda: list(getattr(tdf, "entries", []))
        if op == "copy":
            def cp():
                target = os.path.join(impl.dir, "copy.tdf")
                if os.path.exists(target):
                    os.unlink(target)
                try:
                    dup = tdf.copy(target)
                    # the copy is a new object in the default (read-only, no context) mode, whatever mode the
                    # source is in: mutating through it without allow_write() must be refused and must touch
                    # neither file
                    with open(target, "rb") as f:
                        copy_before = f.read()
                    src_before = impl.sha()
                    blk = kdriver.make_block(R.T_OPT, 0)
                    for how in ("no-context", "plain-context"):
                        try:
                            if how == "no-context":
                                dup.add_block(blk)
                            else:
                                with dup:
                                    dup.add_block(blk)
                            accepted = True
                        except Exception:  # noqa: BLE001
                            accepted = False
                        with open(target, "rb") as f:
                            copy_after = f.read()
                        if impl.sha() != src_before or copy_after != copy_before:
                            which = "the SOURCE file" if impl.sha() != src_before else "the copy"
                            raise self.V("write-outside-write-context", f"add_block through the object returned by copy() ({how}, no allow_write) "
                                         f"changed {which}", "copy-object")
                        if accepted:
                            raise self.V("mutator-not-refused", f"add_block through the object returned by copy() ({how}, no allow_write) "
                                         f"returned normally", "copy-object")
                    if env.open_fds_on(target):
                        raise self.V("descriptor-left-open", "a descriptor on the copy is still open", "copy-object")
                    return dup
                finally:
                    if os.path.exists(target):
                        os.unlink(target)
            return cp
        raise ValueError(op)

    def step(self, impl, model, op):
        model = dict(model)
        tdf = impl.tdf
        before = None if self.light else impl.sha()
        where = f"mode(aw={model['aw']}, ctx={model['ctx']}, ctx_w={model['ctx_w']}) content={[R.NAMES[t] for t in model['live']]}"
        err = None
        kind = "mode" if op in MODE_OPS else ("mutator" if op in MUTATORS else "reader")
        skipped = False
        try:
            if op == "allow_write":
                r = tdf.allow_write()
                if r is not tdf:
                    raise self.V("allow_write-return", "allow_write() must return the object for `with Tdf(p).allow_write() as f`")
                model["aw"] = True
            elif op == "enter":
                tdf.__enter__()
                impl.entered = True
                model["ctx"], model["ctx_w"] = True, model["aw"]
            elif op in ("exit", "exit_exc"):
                if op == "exit":
                    tdf.__exit__(None, None, None)
                else:
                    e = ValueError("boom")
                    tdf.__exit__(ValueError, e, None)
                impl.entered = False
                model["ctx"], model["ctx_w"], model["aw"] = False, False, False
                model["last_exit"] = "exception" if op == "exit_exc" else "normal"
                model["failed_in_ctx"] = False
            elif kind == "mutator":
                fn = self._mutate(impl, op, model["live"])
                if fn is None:
                    skipped = True
                else:
                    fn()
            else:
                self._read(impl, op)()
        except core.Violation:
            raise
        except Exception as e:  # noqa: BLE001
            err = e
        if err is not None and model["ctx"]:
            model["failed_in_ctx"] = True  # a call raised inside the open context (history feature kept apart)
        if self.light:  # replaying a prefix: same model updates, no oracle work
            if kind == "reader" and not model["ctx"] and model["aw"] is True:
                model["aw"] = "maybe"
            if kind == "mutator" and not skipped:
                may = model["ctx"] and model["ctx_w"] in (True, "maybe")
                if not may and not model["ctx"] and model["aw"] is True:
                    model["aw"] = "maybe"
                model["live"] = impl.live()
            return impl, model
        after = impl.sha()
        changed = before != after
        if kind == "mode":
            if err is not None:
                raise self.V("mode-op-raises", f"{op} in {where}: {type(err).__name__}: {err}", op)
            if changed:
                raise self.V("bytes-changed-by-mode-op", f"{op} in {where} changed the file", op)
        elif kind == "reader":
            if changed:
                raise self.V("reader-changed-file", f"reader {op} in {where} changed the file bytes", op)
            if not model["ctx"] and model["aw"] is True:
                model["aw"] = "maybe"  # an implicit context was opened and closed
        elif not skipped:
            may = model["ctx"] and model["ctx_w"] in (True, "maybe")
            must = model["ctx"] and model["ctx_w"] is True
            if changed and not may:
                raise self.V("write-outside-write-context", f"mutator {op} in {where} changed the file "
                             f"({'raised ' + type(err).__name__ if err else 'returned normally'})", op)
            if not may:
                if err is None:
                    raise self.V("mutator-not-refused", f"mutator {op} in {where} returned normally (file unchanged)", op)
                if not model["ctx"] and model["aw"] is True:
                    model["aw"] = "maybe"  # the call may have gone through an implicit context
            if must:
                if err is not None:
                    raise self.V("valid-mutation-refused", f"mutator {op} in a freshly write-enabled context ({where}): "
                                 f"{type(err).__name__}: {err}", op)
                if not changed and op not in IDEMPOTENT:
                    raise self.V("valid-mutation-no-effect", f"mutator {op} in {where} returned but the file is unchanged", op)
            if err is not None and changed:
                raise self.V("refused-mutation-changed-file", f"mutator {op} in {where} raised {type(err).__name__} and changed the file", op)
            model["live"] = impl.live()
        # descriptors
        fds = env.open_fds_on(impl.path)
        if not model["ctx"] and fds:
            raise self.V("descriptor-left-open", f"after {op} in {where} (no explicit context) {len(fds)} descriptor(s) on the file "
                         f"are still open", kind)
        if model["ctx"] and not fds:
            raise self.V("context-handle-closed", f"after {op} inside an explicit context ({where}) the file handle is gone", kind)
        fdo = env.open_fds_on(impl.other)
        if fdo:
            raise self.V("descriptor-left-open", f"after {op}: descriptor on the *other* file left open", "other")
        return impl, model

    def observe(self, impl, model, hist):
        pass

    def canon(self, impl, model):
        # model fields + how the last context was left + whether something raised inside the open
        # context + every simple-valued (bool / int / str / None) attribute of the object, whatever it is
        # called (mode flags, "implicit context" markers ...): only used to keep states apart, never judged
        t = impl.tdf
        flags = tuple(sorted((k, v) for k, v in vars(t).items() if isinstance(v, (bool, int, str, type(None)))))
        return (model["aw"], model["ctx"], model["ctx_w"], model["live"], model["last_exit"], model["failed_in_ctx"], flags)

    def nontrivial(self, model):
        return True


NSLICE = 6


def _shard(k):
    acc = core.Acc()
    m = ModeMachine((k, NSLICE))
    # replay-based exploration; close handles of abandoned objects as we go
    opened = []

    def make_wrapped():
        mk = dict(ModeMachine.initial(m))["fresh"]

        def mk2():
            impl, model = mk()
            opened.append(impl)
            if len(opened) > 64:
                for o in opened[:32]:
                    o.close()
                    import shutil
                    shutil.rmtree(o.dir, ignore_errors=True)
                del opened[:32]
            return impl, model
        return mk2

    m.initial = lambda: [("fresh", make_wrapped())]
    ohist.explore(m, acc, depth=None, tag="", copy_states=False, max_states=5000)
    for o in opened:
        o.close()
    acc.sample({"mode ops": list(MODE_OPS), "mutators": list(MUTATORS), "readers checked by this shard": m.readers}, 4)
    if k:  # the mode/mutator skeleton is explored by every shard; count its states once
        acc.n["states"] = 0
        acc.n["nontrivial"] = 0
    return acc


def _unreadable_shard(_):
    """Well-formed files the library cannot read completely: whatever it answers - refusal or data - no access form
    may change their bytes or leave a descriptor open.  Access forms: explicit context (plain, write-enabled), every
    implicit reader with no context, twice in a row, and a reader after a refused explicit context."""
    acc = core.Acc()
    n = specs.lib()
    d = env.scratch_dir("c08u")
    good = R.build_file(3, [kdriver.known_record(R.T_EVENTS, 0), kdriver.opaque_record(1)])
    unknown_kind = bytearray(good)
    unknown_kind[R.HEADER + R.ENTRY: R.HEADER + R.ENTRY + 4] = (17).to_bytes(4, "little")     # a block kind beyond the enum
    future_format = bytearray(good)
    future_format[R.HEADER + 4: R.HEADER + 8] = (77).to_bytes(4, "little")                     # a format code of the events block the library does not know
    # structurally sound files (signature, version, table, ranges all fine - the property's "well-formed") that the
    # library nevertheless cannot read completely
    files = {
        "opaque-block": good,                               # a block of a kind the library cannot decode: `blocks` raises inside its implicit context
        "unknown-block-kind": bytes(unknown_kind),          # a kind beyond the library's enumeration: opening is refused
        "unknown-block-format": bytes(future_format),       # decoding that block is refused
    }
    readers = ("blocks", "has_events", "events", "len", "repr", "getitem_0", "nBytes", "eq_self", "entries_attr")

    def read(tdf, op):
        if op == "len":
            return len(tdf)
        if op == "repr":
            return repr(tdf)
        if op == "getitem_0":
            return tdf[0]
        if op == "eq_self":
            return tdf == tdf
        if op == "entries_attr":
            return list(getattr(tdf, "entries", []))
        return getattr(tdf, op)

    forms = [("with",), ("with-write",)] + [("reader", r) for r in readers] + [("reader-twice", r) for r in readers[:4]] + \
            [("with-then-reader", r) for r in readers[:4]]
    for fname, content in files.items():
        for form in forms:
            acc.n["states"] += 1
            acc.n["evaluations"] += 1
            acc.n["nontrivial"] += 1
            acc.n["transitions"] += 1
            path = os.path.join(d, "u.tdf")
            with open(path, "wb") as f:
                f.write(content)
            wit = {"unreadable": [fname, list(form)]}
            outcome = "data"
            try:
                tdf = n.tdf.Tdf(path)
                try:
                    with env.time_limit(10):
                        if form[0] in ("with", "with-write", "with-then-reader"):
                            if form[0] == "with-write":
                                tdf.allow_write()
                            try:
                                with tdf as f:
                                    len(f)
                            except Exception:  # noqa: BLE001
                                outcome = "refused"
                                if form[0] != "with-then-reader":
                                    raise
                            if form[0] == "with-then-reader":
                                read(tdf, form[1])
                        else:
                            for _ in range(2 if form[0] == "reader-twice" else 1):
                                try:
                                    read(tdf, form[1])
                                except Exception:  # noqa: BLE001
                                    outcome = "refused"
                except Exception:  # noqa: BLE001
                    outcome = "refused"
            except Exception:  # noqa: BLE001
                outcome = "refused-at-construction"
            with open(path, "rb") as f:
                after = f.read()
            desc = f"{fname} file, access {' '.join(form)} ({outcome})"
            if after != content:
                acc.violation("reader-changed-file", f"{PROP}:unreadable:changed:{form[0]}", wit, f"{desc}: the file's bytes changed")
            elif env.open_fds_on(path):
                acc.violation("descriptor-left-open", f"{PROP}:unreadable:descriptor:{form[0]}", wit, f"{desc}: a descriptor on the file is still open")
            else:
                acc.outcomes[f"unreadable:{fname}:{outcome}"] += 1
                acc.n["traces"] += 1
            os.unlink(path)
    acc.sample({"unreadable files": list(files), "access forms": [" ".join(f) for f in forms[:4]] + ["..."]}, 1)
    return acc


def _any_shard(k):
    if k == "unreadable":
        return _unreadable_shard(k)
    return _shard(k)


def run(tier):
    return core.pmap(__name__, "_any_shard", ["unreadable"] + list(range(NSLICE)))


def replay(w):
    if w.get("unreadable"):
        acc = _unreadable_shard(None)
        for v in acc.violations:
            if v["witness"] == w:
                return core.Violation(v["clause"], v["sig"], w, v["detail"])
        return None
    m = ModeMachine()
    impl = None
    try:
        hist = [ohist.deep_tuple(o) if isinstance(o, list) else o for o in w["history"]]
        impl, model = ohist.replay(m, w["init"], hist[:-1])
        impl, model = m.step(impl, model, hist[-1])
    except core.Violation as v:
        return v
    finally:
        if impl is not None:
            impl.close()
    return None
