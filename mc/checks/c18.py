"""C18 - lookup by index, by label, membership, iteration and length are coherent.

Exhaustive over all blocks with 0..3 items whose labels range over {"", "a", "A", " a", "a "}
(156 label tuples incl. duplicates) x 4 block classes x a fixed key menu: ints -5..5, every
alphabet label and an absent one, item objects (member / non-member), None, 1.5, bytes, list,
tuple.  Blocks are built through the public API and, separately, decoded from bytes."""
import itertools

import numpy as np

from .. import core, gen, specs
from .. import tdfref as R

PROP = "C18"
LABELS = ["", "a", "A", " a", "a "]
RULE = ("states = (class, label tuple, origin built|decoded|foreign = decoded from bytes whose labels fill the field[, one edit: relabel item i / remove item i / append]); 156 label "
        "tuples x 4 classes x 2 origins, each also followed by every single edit with lookups before and after; ~35 key "
        "evaluations each ([], in, len, iter) against a plain Python list model; non-trivial = tuple has a duplicate "
        "label or an empty label")
ASSUMPTIONS = [
    "labels from a 5-symbol alphabet (empty, case variants, surrounding blanks); up to 3 items",
    "out-of-range integer index: any LookupError is accepted",
    "unsupported key types: TypeError required for [], for 'in' either False or TypeError is accepted",
    "numpy integers / bool as keys are not in the menu (the statement does not say whether they are supported)",
]
TYPES = (R.T_DATA3D, R.T_FORCE3D, R.T_EMG, R.T_EVENTS)


def make(t, labels):
    n = 2
    if t == R.T_DATA3D:
        return gen.data3d(n, [gen.mk_track3d(n, (True, i % 2 == 0), lab, i) for i, lab in enumerate(labels)])
    if t == R.T_FORCE3D:
        return gen.force3d(n, [gen.mk_ftrack(n, (True, i % 2 == 0), lab, i) for i, lab in enumerate(labels)])
    if t == R.T_EMG:
        # channels deliberately not ascending: storage order, not channel order, is what the lookups follow
        return gen.emg(n, [((7 * (i + 1)) % 5 + 10 * (i % 2), gen.mk_emgsig(n, (True, i % 2 == 0), lab, i)) for i, lab in enumerate(labels)])
    # value counts 0, 1, 2 by position: an event without values must be found like any other
    evs = [gen.mk_event(lab, 1, i % 3, i) for i, lab in enumerate(labels)]
    for e in evs:
        if len(e["values"]) >= 2:
            e["values"][-1] = np.nan  # an unknown instant: an item that is not equal to itself value-wise is still a member
    return gen.events(evs)


def full_width(lab):
    """The label as other software may store it: filling all 256 bytes, no terminator."""
    return lab if lab == "" else lab + "~" * (256 - len(lab))


def make_block(t, labels, origin):
    if origin == "foreign":
        labels = tuple(full_width(x) for x in labels)
        sp = make(t, labels)
        return sp, specs.lib_decode(t, sp["format"], R.encode_block(sp, full_ok=True))[0]
    sp = make(t, labels)
    b = specs.build(sp)
    if origin == "decoded":
        b = specs.lib_decode(t, sp["format"], specs.lib_encode(b))[0]
    return sp, b


def check_one(t, labels, origin, acc):
    sp, b = make_block(t, labels, origin)
    if origin == "foreign":
        labels = tuple(full_width(x) for x in labels)
    return check_block(t, b, sp, labels, f"{R.NAMES[t]} labels={[x[:6] for x in labels]} ({origin})", acc, encodable=origin != "foreign")


EDITS = ("relabel", "remove", "append")


def edits_for(labels):
    out = []
    for i in range(len(labels)):
        for new in LABELS:
            if new != labels[i]:
                out.append(("relabel", i, new))
        out.append(("remove", i))
    if len(labels) < 3:
        for new in LABELS:
            out.append(("append", new))
    return out


def apply_edit(t, b, sp, labels, edit):
    """One edit through the public interface; returns the expected label list."""
    labels = list(labels)
    items = list(iter(b))
    if edit[0] == "relabel":
        items[edit[1]].label = edit[2]
        labels[edit[1]] = edit[2]
    elif edit[0] == "remove":
        i = edit[1]
        if t == R.T_EMG:
            b.removeSignal(labels[i])          # removes the first signal carrying that label
            del labels[labels.index(labels[i])]
        elif t == R.T_EVENTS:
            b.events.pop(i)
            del labels[i]
        else:
            b.tracks = [x for k, x in enumerate(items) if k != i]
            del labels[i]
    else:
        new = edit[1]
        item_sp = (make(t, [new])["tracks"][0] if t in (R.T_DATA3D, R.T_FORCE3D) else
                   make(t, [new])["items"][0][1] if t == R.T_EMG else make(t, [new])["events"][0])
        it = specs.build_item(t, item_sp, sp)
        if t == R.T_EMG:
            b.addSignal(it)
        elif t == R.T_EVENTS:
            b.events.append(it)
        else:
            b.add_track(it)
        labels.append(new)
    return labels


def check_edited(t, labels, origin, edit, acc):
    """Look everything up once (whatever that caches), edit, look everything up again."""
    sp, b = make_block(t, labels, origin)
    where0 = f"{R.NAMES[t]} labels={list(labels)} ({origin})"
    check_block(t, b, sp, labels, where0, acc)
    try:
        labels2 = apply_edit(t, b, sp, labels, edit)
    except Exception as e:  # noqa: BLE001
        raise core.Violation("edit-raises", f"{PROP}:{R.NAMES[t]}:edit-raises:{edit[0]}", None, f"{where0} {edit}: {type(e).__name__}: {e}")
    acc.n["transitions"] += 1
    return check_block(t, b, sp, labels2, f"{where0} after {edit}", acc, after_edit=edit[0])


def check_block(t, b, sp, labels, where, acc, after_edit=None, encodable=True):
    name = R.NAMES[t]
    before = specs.lib_encode(b) if encodable else None  # (a block with full-width foreign labels can be read, not written)

    def V(clause, detail, extra=""):
        extra = ":".join(x for x in (extra, f"after-{after_edit}" if after_edit else "") if x)
        return core.Violation(clause, f"{PROP}:{name}:{clause}{(':' + extra) if extra else ''}", None, f"{where}: {detail}")

    items = list(iter(b))
    acc.n["transitions"] += 2
    if len(b) != len(items) or len(items) != len(labels):
        raise V("len!=iterated", f"len {len(b)}, iteration yields {len(items)}, built with {len(labels)}")
    if [it.label for it in items] != list(labels):
        raise V("iteration-order", f"iterated labels {[it.label for it in items]}")
    L = len(items)
    for i in range(-5, 6):
        acc.n["transitions"] += 1
        try:
            got = b[i]
        except LookupError:
            if -L <= i < L:
                raise V("valid-index-refused", f"[{i}] raised LookupError with {L} items")
            continue
        except Exception as e:  # noqa: BLE001
            raise V("index-wrong-exception", f"[{i}] raised {type(e).__name__}", type(e).__name__)
        if not (-L <= i < L):
            raise V("out-of-range-index-returns", f"[{i}] returned an item with {L} items")
        if got is not items[i]:
            raise V("index!=iteration", f"[{i}] is not the {i}-th iterated item")
    for lab in LABELS + ["zz", "a  ", "AA"]:
        acc.n["transitions"] += 2
        first = next((it for it in items if it.label == lab), None)
        try:
            got = b[lab]
            err = None
        except KeyError:
            got, err = None, "KeyError"
        except Exception as e:  # noqa: BLE001
            raise V("label-wrong-exception", f"[{lab!r}] raised {type(e).__name__}", type(e).__name__)
        if first is None and err is None:
            raise V("absent-label-returns", f"[{lab!r}] returned {getattr(got, 'label', got)!r}")
        if first is not None and err is not None:
            raise V("present-label-refused", f"[{lab!r}] raised KeyError")
        if first is not None and got is not first:
            raise V("label-not-first-match", f"[{lab!r}] returned item #{[id(x) for x in items].index(id(got)) if any(got is x for x in items) else '?'}, "
                                            f"first match is #{items.index(first)}")
        try:
            c = lab in b
        except Exception as e:  # noqa: BLE001
            raise V("contains-raises", f"{lab!r} in block raised {type(e).__name__}", type(e).__name__)
        if bool(c) != (first is not None):
            raise V("contains!=lookup", f"{lab!r} in block is {c}, lookup {'succeeds' if first is not None else 'fails'}")
    # item objects
    for it in items:
        acc.n["transitions"] += 1
        try:
            if not (it in b):
                raise V("member-not-contained", f"item {it.label!r} not reported as contained")
        except core.Violation:
            raise
        except Exception as e:  # noqa: BLE001
            raise V("contains-raises", f"item in block raised {type(e).__name__}", "item")
    other = specs.build_item(t, (make(t, ["other-label"])["tracks"][0] if t in (R.T_DATA3D, R.T_FORCE3D) else
                                 make(t, ["other-label"])["items"][0][1] if t == R.T_EMG else make(t, ["other-label"])["events"][0]),
                             sp)
    try:
        if other in b:
            raise V("non-member-contained", "an item with a label no member carries is reported as contained")
    except core.Violation:
        raise
    except Exception as e:  # noqa: BLE001
        raise V("contains-raises", f"non-member item in block raised {type(e).__name__}", "item")
    # an item from elsewhere that only shares a member's LABEL (samples no member has) is not contained
    if labels:
        n2 = 2
        if t == R.T_DATA3D:
            src = gen.mk_track3d(n2, (True, True), labels[0], 777)
        elif t == R.T_FORCE3D:
            src = gen.mk_ftrack(n2, (True, True), labels[0], 777)
        elif t == R.T_EMG:
            src = gen.mk_emgsig(n2, (True, True), labels[0], 777)
        else:
            src = {"label": labels[0], "etype": 1, "values": np.array([4321.5, -8.25, 17.0], "<f4")}
        stranger = specs.build_item(t, src, sp)
        try:
            if stranger in b:
                raise V("non-member-contained", f"an item that shares the label {labels[0]!r} with a member but has other samples is reported as contained",
                        "same-label")
        except core.Violation:
            raise
        except Exception as e:  # noqa: BLE001
            raise V("contains-raises", f"same-label non-member in block raised {type(e).__name__}", "item")
    for key in (None, 1.5, b"a", ["a"], ("a",)):
        acc.n["transitions"] += 2
        try:
            b[key]
            raise V("unsupported-key-returns", f"[{key!r}] returned normally", type(key).__name__)
        except TypeError:
            pass
        except core.Violation:
            raise
        except Exception as e:  # noqa: BLE001
            raise V("unsupported-key-wrong-exception", f"[{key!r}] raised {type(e).__name__}, expected TypeError", type(key).__name__)
        try:
            r = key in b
            if r:
                raise V("unsupported-key-contained", f"{key!r} in block is True")
        except TypeError:
            pass
        except core.Violation:
            raise
        except Exception as e:  # noqa: BLE001
            raise V("unsupported-key-wrong-exception", f"{key!r} in block raised {type(e).__name__}", "in")
    if (encodable and specs.lib_encode(b) != before) or [x for x in iter(b)] != items or any(x is not y for x, y in zip(iter(b), items)):
        raise V("lookup-changed-block", "encoding / item list differs after the lookups")
    return "coherent"


def _shard(shard):
    t, origin = shard
    acc = core.Acc()
    for k in range(5 if getattr(_shard, "tier", "quick") == "thorough" else 4):
        for labels in itertools.product(LABELS, repeat=k):
            acc.n["states"] += 1
            acc.n["evaluations"] += 1
            if len(set(labels)) < len(labels) or "" in labels:
                acc.n["nontrivial"] += 1
            try:
                out = check_one(t, labels, origin, acc)
                acc.outcomes[f"{R.NAMES[t]}:{origin}:{out}"] += 1
                acc.n["traces"] += 1
            except core.Violation as v:
                acc.violation(v.clause, v.sig, {"type": t, "labels": list(labels), "origin": origin}, v.detail)
            for edit in (edits_for(labels) if origin != "foreign" else ()):
                acc.n["states"] += 1
                acc.n["evaluations"] += 1
                acc.n["nontrivial"] += 1
                try:
                    out = check_edited(t, labels, origin, edit, acc)
                    acc.outcomes[f"{R.NAMES[t]}:{origin}:after-{edit[0]}:{out}"] += 1
                    acc.n["traces"] += 1
                except core.Violation as v:
                    acc.violation(v.clause, v.sig, {"type": t, "labels": list(labels), "origin": origin, "edit": list(edit)}, v.detail)
    acc.sample({"class": R.NAMES[t], "origin": origin, "label tuples": 156, "example": ["a", "", "a"],
                "then": "every single relabel / remove / append, lookups before and after"}, 1)
    return acc


def run(tier):
    _shard.tier = tier
    return core.pmap(__name__, "_shard", [(t, o) for t in TYPES for o in ("built", "decoded", "foreign")])


def replay(w):
    try:
        if w.get("edit"):
            e = w["edit"]
            check_edited(w["type"], tuple(w["labels"]), w["origin"], tuple(e), core.Acc())
        else:
            check_one(w["type"], tuple(w["labels"]), w["origin"], core.Acc())
    except core.Violation as v:
        return v
    return None
