"""C03 - any history of add/remove/replace leaves a structurally sound file.

State-space exploration of the real container (driver K), BFS to the fixpoint; after every
successful operation the raw file is parsed by the independent reader: signature, version,
slot count unchanged; every live range after the table and inside the file; live ranges
pairwise disjoint; unused slots have size zero."""
from .. import core, kdriver
from .. import tdfref as R
from . import kcommon

PROP = "C03"
RULE = ("[plus every sequence of 1-3 removals on 6 files with an unused slot between live blocks] " +"states = distinct canonical (file + in-memory table) states reached by BFS to the fixpoint per configuration "
        "(slots N, initial file incl. opaque blocks and junk don't-care bytes, 2-5 kinds x 1-3 size variants); every "
        "valid op (add / remove by type|instance / replace / setter / reopen) applied in every state; non-trivial = "
        "states with >= 2 live blocks")
ASSUMPTIONS = [
    "table lengths N in {1,2,3,14} (quick) / {1..5,14} (thorough); payload alphabets fixed per configuration",
    "a state whose in-memory table equals the disk table is rebuilt from its file bytes in a fresh Tdf object "
    "(behaviour assumed to be a function of file bytes, in-memory table and mode); other states by replay",
    "only operations a correct implementation accepts are applied (invalid ones belong to C07/C11)",
]


def sound_violation(data, n, version=1):
    if data[:16] != R.SIGNATURE:
        return "signature", "signature changed"
    try:
        p = R.parse_file(data)
    except R.LayoutError as e:
        return "unparsable", str(e)
    if p["version"] != version:
        return "version", f"version {p['version']}"
    if p["n"] != n:
        return "slot-count", f"{p['n']} slots, was {n}"
    base = R.HEADER + R.ENTRY * n
    live = []
    for i, e in enumerate(p["entries"]):
        if e["type"] == 0:
            if e["size"] != 0:
                return "unused-size", f"unused slot {i} has size {e['size']}"
            continue
        if e["type"] not in R.NAMES:
            return "entry-type", f"slot {i} type {e['type']}"
        if e["size"] < 0 or e["offset"] < base or e["offset"] + e["size"] > len(data):
            return "range-outside-file", f"slot {i} [{e['offset']}, {e['offset'] + e['size']}) table ends {base}, file {len(data)}"
        live.append((e["offset"], e["offset"] + e["size"], i))
    live.sort()
    for (a0, a1, i), (b0, b1, j) in zip(live, live[1:]):
        if b0 < a1 and a1 > a0 and b1 > b0:
            return "overlap", f"slots {i} [{a0},{a1}) and {j} [{b0},{b1}) overlap"
    return None


def observe(sess, hist, op, exc, valid, reason, pre, acc):
    if exc is not None:
        return
    cfg = sess.cfg
    n = 14 if cfg.init == "new" else cfg.n
    bad = sound_violation(sess.disk(), n)
    if bad:
        raise core.Violation(bad[0], kcommon.sig(PROP, bad[0], op, cfg), None,
                             f"after {[kdriver.op_str(o) for o in hist]}: {bad[1]}")


_shard = kcommon.make_run(__name__, "observe", extra_ops=kcommon.long_comment_ops)


_chain = kcommon.make_chain_run(__name__, "observe", extra_ops=kcommon.long_comment_ops, faults=True)


def _judge_holes(ctx):
    bad = sound_violation(ctx["data"], ctx["n"])
    return [(bad[0], bad[1])] if bad else []


def _holes(_):
    return kcommon.hole_removal_shard(PROP, _judge_holes)


def run(tier):
    acc = kcommon.run_configs(__name__, tier)
    acc.merge(core.pmap(__name__, "_holes", [0]))
    # straight-line histories in ONE context on ONE object (in-memory table state that a restore from
    # file bytes cannot carry, e.g. aliased entries), incl. tables that keep >= 2 unused slots
    acc.merge(core.pmap(__name__, "_chain", [c.to_witness() for c in kcommon.chain_configs(tier, deep=True)]))
    return acc


def replay(w):
    if w.get("holes"):
        return kcommon.hole_replay(w, PROP, _judge_holes)
    return kcommon.replay_any(w, observe)
