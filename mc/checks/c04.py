"""C04 - mutating one block never alters any other block or its metadata.

Same exploration as C03; the oracle compares, after every operation, every live entry of the
independently parsed file with the reference model of the history: payload bytes, format
code, comment, creation/modification dates (to the second) - including opaque blocks and
blocks never touched; removed kinds absent; replace without comment keeps the comment; and
reading every decodable block through the open object gives content that re-encodes to the
stored bytes."""
import hashlib

from .. import core, kdriver, specs
from .. import tdfref as R
from . import kcommon

PROP = "C04"
RULE = ("[plus every sequence of 1-3 removals on 6 files with an unused slot between live blocks] " +"states as in C03; per transition every live record (payload sha, format, comment, cdate, mdate) is compared "
        "with the model of the history and every decodable block is read back through get_block; payload sizes are "
        "pairwise distinct so each shift is visible; non-trivial = states with >= 2 live blocks")
ASSUMPTIONS = [
    "comments: a cp1252 comment with non-ASCII characters, the default comment, a 255-byte comment, '' on replace",
    "opaque initial blocks of kinds 1/3/8/10/13/14/15 with junk in their entries' don't-care bytes",
    "state restore as in C03",
]


def observe(sess, hist, op, exc, valid, reason, pre, acc):
    from .. import env as _env

    try:
        with _env.time_limit(5):
            return _observe(sess, hist, op, exc, valid, reason, pre, acc)
    except _env.LibraryCallTimeout as e:
        raise core.Violation("read-does-not-return", kcommon.sig(PROP, "read-does-not-return", op, sess.cfg), None,
                             f"after {len(hist)} calls: {e} (blocks in this exploration are small)")


def _observe(sess, hist, op, exc, valid, reason, pre, acc):
    cfg = sess.cfg
    model = sess.model
    data = sess.disk()
    try:
        p = R.parse_file(data)
    except R.LayoutError as e:
        raise core.Violation("unparsable", kcommon.sig(PROP, "unparsable", op, cfg), None, str(e))
    where = f"after {[str(o) if o[0] == 'bad' else kdriver.op_str(o) for o in hist]}"
    live = [e for e in p["entries"] if e["type"] != 0]
    types = [e["type"] for e in live]
    if sorted(types) != sorted(model.live):
        extra = sorted(set(types) - set(model.live))
        missing = sorted(set(model.live) - set(types))
        clause = "removed-kind-present" if extra else ("block-lost" if missing else "duplicate-kind")
        raise core.Violation(clause, kcommon.sig(PROP, clause, op, cfg), None,
                             f"{where}: file has {[str(R.NAMES.get(t, t)) for t in types]}, history says {[R.NAMES.get(t, t) for t in model.live]}")
    for i, e in enumerate(p["entries"]):
        if e["type"] == 0:
            continue
        r = model.live[e["type"]]
        touched = op is not None and len(op) > 1 and (op[2] if op[0] == "bad" else op[1]) == e["type"]
        tag = "touched" if touched else "bystander"
        got = R.payload(data, e)
        if got != r.payload:
            raise core.Violation("payload-changed", kcommon.sig(PROP, "payload-changed", op, cfg, tag), None,
                                 f"{where}: slot {i} {R.NAMES.get(e['type'], e['type'])} stored bytes differ from what was given "
                                 f"(size {len(got)} vs {len(r.payload)}, sha {hashlib.sha1(got).hexdigest()[:8]})")
        if e["format"] != r.format:
            raise core.Violation("format-changed", kcommon.sig(PROP, "format-changed", op, cfg, tag), None,
                                 f"{where}: slot {i} format {e['format']} vs {r.format}")
        if e["comment"] != r.comment:
            clause = "comment-not-kept" if (touched and op[0] in ("replace", "set")) else "comment-changed"
            raise core.Violation(clause, kcommon.sig(PROP, clause, op, cfg, tag), None,
                                 f"{where}: slot {i} {R.NAMES.get(e['type'], e['type'])} comment {e['comment']!r:.60} vs {r.comment!r:.60}")
        if (e["ctime"], e["mtime"]) != (r.ctime, r.mtime):
            raise core.Violation("dates-changed", kcommon.sig(PROP, "dates-changed", op, cfg, tag), None,
                                 f"{where}: slot {i} {R.NAMES.get(e['type'], e['type'])} dates {(e['ctime'], e['mtime'])} vs {(r.ctime, r.mtime)}")
        if e["type"] in R.WRITABLE:
            try:
                blk = sess.tdf.get_block(specs.lib().block.BlockType(e["type"]))
                back = specs.lib_encode(blk)
            except Exception as x:  # noqa: BLE001
                raise core.Violation("read-raises", kcommon.sig(PROP, "read-raises", op, cfg, type(x).__name__), None,
                                     f"{where}: get_block({R.NAMES.get(e['type'], e['type'])}) -> {type(x).__name__}: {x}")
            if back != r.payload:
                raise core.Violation("read!=stored", kcommon.sig(PROP, "read!=stored", op, cfg, tag), None,
                                     f"{where}: get_block({R.NAMES.get(e['type'], e['type'])}) returns content that encodes differently "
                                     f"from the stored block")
            acc.n["block_reads"] += 1


_shard = kcommon.make_run(__name__, "observe")


_chain = kcommon.make_chain_run(__name__, "observe", faults=True)


def _judge_holes(ctx):
    """Survivors keep payload, format, comment and dates; removed kinds are gone; decodable survivors read back."""
    p, data = ctx["parsed"], ctx["data"]
    if p is None:
        return [("unparsable", "file no longer parses")]
    want = {r["type"]: r for r in ctx["records"] if r["type"] not in ctx["removed"]}
    got = [e for e in p["entries"] if e["type"] != 0]
    types = [e["type"] for e in got]
    if sorted(types) != sorted(want):
        return [("block-lost" if set(want) - set(types) else "removed-kind-present",
                 f"file has {[str(R.NAMES.get(t, t)) for t in types]}, expected {[str(R.NAMES.get(t, t)) for t in want]}")]
    for e in got:
        r = want[e["type"]]
        name = R.NAMES.get(e["type"], e["type"])
        if R.payload(data, e) != r["payload"]:
            return [("payload-changed", f"{name}: stored bytes differ from the original block")]
        if r["comment"] is None:   # the block an accepted request just stored: its comment is not at issue here
            r = dict(r, comment=e["comment"])
        if (e["format"], e["comment"], e["ctime"], e["mtime"]) != (r["format"], r["comment"], r["ctime"], r["mtime"]):
            return [("metadata-changed", f"{name}: format / comment / dates {(e['format'], e['comment'], e['ctime'], e['mtime'])} "
                                         f"vs {(r['format'], r['comment'], r['ctime'], r['mtime'])}")]
        if e["type"] in R.WRITABLE:
            try:
                back = specs.lib_encode(ctx["tdf"].get_block(specs.lib().block.BlockType(e["type"])))
            except Exception as x:  # noqa: BLE001
                return [("read-raises", f"get_block({name}) -> {type(x).__name__}: {x}")]
            if back != r["payload"]:
                return [("read!=stored", f"get_block({name}) returns content that encodes differently from the stored block")]
    return []


def _holes(_):
    return kcommon.hole_removal_shard(PROP, _judge_holes)


def run(tier):
    acc = kcommon.run_configs(__name__, tier)
    acc.merge(core.pmap(__name__, "_holes", [0]))
    # straight-line histories in ONE context with reads in between (read-side hidden state)
    acc.merge(core.pmap(__name__, "_chain", [c.to_witness() for c in kcommon.chain_configs(tier, deep=True)]))
    return acc


def replay(w):
    if w.get("holes"):
        return kcommon.hole_replay(w, PROP, _judge_holes)
    return kcommon.replay_any(w, observe)
