"""C05 - missing-data gaps survive storage exactly; gap frames always read as NaN.

For each of the four run-length coded kinds, every presence mask over n frames (all 2^n for
n up to the tier bound, the complete '<= 1 run' family over 64 frames and '<= 2 runs' over 16 frames, independent masks on
2-3 items) is written by the real writer; the run table is parsed out of the bytes by the
independent reader and checked for well-formedness; the bytes (and the reference encoder's
bytes for the same input) are decoded by the real reader under every allocator poison,
twice, and gap frames must be NaN in every component, present frames bit-exact."""
import itertools

import numpy as np

from .. import core, editwalk, env, gen, shape, specs
from .. import tdfref as R

PROP = "C05"
RULE = ("states = (kind, item masks) ; all 2^n masks n<=8 (thorough 13), all masks with <=1 run over 64 (128) frames and "
        "<=2 runs over 16 (24) frames, 2-3 items "
        "with independent masks, present frames that are NaN in single components, the same samples in 4 other memory "
        "layouts; per state: independent parse of the written run table + decode under 3 "
        "allocator poisons x 2 repeats x 2 byte sources; non-trivial = some item has >=2 runs or starts/ends "
        "with a gap")
RULE = RULE + editwalk.RULE_SUFFIX
ASSUMPTIONS = [
    "'sampled for large n' is replaced by complete families: every <=1-run mask over 64/128 frames and every "
    "<=2-run mask over 16/24 frames, per kind",
    "allocator states explored: fresh buffers pre-filled with 0x00, 0x5A, 0xA5 (numpy.empty wrapped)",
    "run table located with the reference layout (the property's 'independent parser')",
]
KEYS = {R.T_DATA3D: ("data",), R.T_EMG: ("data",), R.T_FORCE3D: ("ap", "force", "torque"),
        R.T_PLATDATA: ("ap", "force", "torque")}


def inputs(t, tier):
    thorough = tier == "thorough"
    F = 13 if thorough else 8
    M = 4 if thorough else 3
    for n in range(1, F + 1):
        for m in gen.all_masks(n):
            yield (f"mask/n{n}", gen.rle_block(t, n, [m]), {})
    n1 = 128 if thorough else 64
    for m in gen.two_run_masks(n1, 1):
        yield (f"onerun/n{n1}", gen.rle_block(t, n1, [m]), {})
    n2 = 24 if thorough else 16
    for m in gen.two_run_masks(n2, 2):
        yield (f"tworun/n{n2}", gen.rle_block(t, n2, [m]), {})
    for n in range(1, M + 1):
        for m1 in gen.all_masks(n):
            for m2 in gen.all_masks(n):
                yield (f"mask2/n{n}", gen.rle_block(t, n, [m1, m2], chans=[5, 1]), {})
    for n in (1, 2) + ((3,) if thorough else ()):
        for ms in itertools.product(gen.all_masks(n), repeat=3):
            yield (f"mask3/n{n}", gen.rle_block(t, n, list(ms), chans=[1, 0, 9]), {})
    yield ("mem", gen.rle_block(t, 5, [(False, True, False, True, False)]), {"mem": "f8"})
    for mem in gen.MEM_LAYOUTS:  # the same samples in another memory layout (column-major, big-endian, strided view, read-only)
        for masks in ([(True, True, True, True)], [(True, False, True, True)], [(True, True, True, True), (False, True, True, False)]):
            yield ("mem", gen.rle_block(t, 4, masks, chans=[5, 1]), {"mem": mem})
    yield from gen.partial_frames(t)
    if thorough or t != R.T_FORCE3D:
        yield ("big/n70000", gen.rle_block(t, 70000, [gen.big_mask()]), {})
        m2 = list(gen.big_mask())
        m2[0] = False
        m2[69999] = False
        yield ("big2/n70000", gen.rle_block(t, 70000, [gen.big_mask(), tuple(m2)], chans=[3, 1]), {})


def _items(sp):
    return sp["tracks"] if "tracks" in sp else [it for _, it in sp["items"]]


def _present(sp, it):
    t = sp["type"]
    arrs = [np.asarray(it[k]).reshape(len(it[KEYS[t][0]]), -1) for k in KEYS[t]]
    return R.present_rows(*arrs)


def _nontrivial(sp):
    for it in _items(sp):
        p = _present(sp, it)
        if len(R.runs(p)) >= 2 or (len(p) and (not p[0] or not p[-1])):
            return True
    return False


def check_one(sp, opts, acc, tag=""):
    t, fmt = sp["type"], sp["format"]
    n = sp.get("nFrames", sp.get("nSamples"))
    try:
        obj = specs.build(sp, **opts)
        written = specs.lib_encode(obj)
        acc.n["transitions"] += 2
    except Exception as e:
        raise shape.viol(PROP, sp, "valid-block-refused", tag, f"{type(e).__name__}: {e}", type(e).__name__)
    # (1) run table as written, parsed independently
    try:
        ref, used, _ = R.decode_block(t, fmt, written)
        if used != len(written):
            raise R.LayoutError(f"{len(written) - used} stray bytes after the block")
    except R.LayoutError as e:
        raise shape.viol(PROP, sp, "run-table-unparsable", tag, str(e))
    ritems = _items(ref)
    if len(ritems) != len(_items(sp)):
        raise shape.viol(PROP, sp, "item-count", tag, f"{len(ritems)} items written for {len(_items(sp))}")
    for i, (it, rit) in enumerate(zip(_items(sp), ritems)):
        present = _present(sp, it)
        segs = rit["segs"]
        covered = np.zeros(n, bool)
        last_end = None
        for s, m in segs:
            if m <= 0:
                raise shape.viol(PROP, sp, "empty-run", tag, f"item {i} runs {segs}")
            if last_end is not None and s < last_end:
                raise shape.viol(PROP, sp, "runs-unordered-or-overlap", tag, f"item {i} runs {segs}")
            if last_end is not None and s == last_end:
                raise shape.viol(PROP, sp, "runs-touch", tag, f"item {i} runs {segs}")
            covered[s:s + m] = True
            last_end = s + m
        if not np.array_equal(covered, present):
            raise shape.viol(PROP, sp, "runs!=present-frames", tag, f"item {i} runs {segs} present {present.astype(int)}")
    # (2) decode under every allocator state, twice, from both byte sources
    canon = R.encode_block(sp)
    # the same storage as other software leaves it: every don't-care byte (padding words, text after the
    # terminator) filled - once with bytes that are large as integers, once with small ones
    noisy1 = R.encode_block(sp, junk=lambda k: bytes((i * 7 + 0x41) % 255 + 1 for i in range(k)))
    noisy2 = R.encode_block(sp, junk=lambda k: bytes([3, 0, 0, 0] * (k // 4 + 1))[:k])
    for src_name, data in (("written", written), ("reference", canon), ("reference+junk", noisy1), ("reference+small-junk", noisy2)):
        first = None
        for poison in env.POISONS:
            for rep in (0, 1):
                try:
                    d, _ = specs.lib_decode(t, fmt, data, poison=poison)
                    got = specs.extract(d)
                    acc.n["transitions"] += 1
                except Exception as e:
                    raise shape.viol(PROP, sp, "decode-raises", tag, f"{src_name}: {type(e).__name__}: {e}",
                                     type(e).__name__)
                gitems = _items(got)
                if len(gitems) != len(_items(sp)):
                    raise shape.viol(PROP, sp, "item-count", tag, f"decoded {len(gitems)} items")
                snap = []
                for i, (it, git) in enumerate(zip(_items(sp), gitems)):
                    present = _present(sp, it)
                    for k in KEYS[t]:
                        a = np.asarray(git[k]).reshape(n, -1)
                        want = np.asarray(it[k], "<f4").reshape(n, -1)
                        nanrows = np.isnan(a)
                        if not nanrows[~present].all():
                            raise shape.viol(PROP, sp, "gap-frame-not-NaN", tag,
                                             f"{src_name} poison={poison:#x} item {i} field {k}: gap frames read "
                                             f"{a[~present].reshape(-1)[:6]}", k)
                        if (nanrows[present] != np.isnan(want[present])).any():
                            raise shape.viol(PROP, sp, "present-frame-NaN", tag,
                                             f"{src_name} item {i} field {k}", k)
                        if not np.array_equal(a[present].view("<u4"), want[present].view("<u4")):
                            raise shape.viol(PROP, sp, "stored-value-changed", tag, f"{src_name} item {i} field {k}", k)
                        snap.append(np.where(nanrows, np.float32(0), a).tobytes() + nanrows.tobytes())
                snap = b"".join(snap)
                if first is None:
                    first = snap
                elif snap != first:
                    raise shape.viol(PROP, sp, "decode-not-repeatable", tag, f"{src_name} poison={poison:#x} rep={rep}")
    return "gaps-exact"


def _shard(shard):
    t, i, k = shard
    acc = core.Acc()
    seen = set()
    for idx, (tag, sp, opts) in enumerate(inputs(t, _shard.tier)):
        if idx % k != i:
            continue
        key = shape.spec_key(sp, opts)
        acc.n["evaluations"] += 1
        if key in seen:
            continue
        seen.add(key)
        acc.n["states"] += 1
        if _nontrivial(sp):
            acc.n["nontrivial"] += 1
        acc.sample({"family": tag, "block": gen.spec_label(sp)}, 2)
        try:
            out = check_one(sp, opts, acc, tag)
            acc.outcomes[f"{R.NAMES[t]}:{out}"] += 1
            acc.n["traces"] += 1
        except core.Violation as v:
            acc.violation(v.clause, v.sig, {"spec": specs.dump(sp), "opts": opts, "tag": tag}, v.detail)
    return acc


def _file_shard(t):
    """The same through a container: block with gaps, then a block of another kind behind it, close,
    reopen, read back (what follows a block must not eat into it: the size the block declares counts)."""
    import os

    acc = core.Acc()
    n = specs.lib()
    tmp = env.scratch_dir("c05f")
    follower = gen.events([gen.mk_event("after", 1, 3)])
    k = 0
    for nfr in (3, 4, 5):
        for m in gen.all_masks(nfr):
            for items in (1, 2):
                sp = gen.rle_block(t, nfr, [m] if items == 1 else [m, tuple(reversed(m))], chans=[3, 1])
                k += 1
                path = os.path.join(tmp, f"f{k}.tdf")
                acc.n["states"] += 1
                acc.n["evaluations"] += 1
                if _nontrivial(sp):
                    acc.n["nontrivial"] += 1
                wit = {"file": True, "spec": specs.dump(sp), "opts": {}}
                try:
                    with n.tdf.Tdf.new(path).allow_write() as f:
                        f.add_block(specs.build(sp))
                        f.add_block(specs.build(follower))
                    with n.tdf.Tdf(path) as f:
                        with env.poisoned_allocator(0x5A):
                            got = specs.extract(f.get_block(0))
                    acc.n["transitions"] += 3
                    df = specs.diff(sp, got)
                    if df:
                        acc.violation("file-roundtrip-loses-samples", f"{PROP}:{R.NAMES[t]}:file-roundtrip:{df.split(':')[0].split('[')[0]}", wit,
                                      f"{gen.spec_label(sp)} followed by another block, reopened: {df}")
                    else:
                        acc.outcomes[f"{R.NAMES[t]}:file:gaps-exact"] += 1
                        acc.n["traces"] += 1
                except Exception as e:  # noqa: BLE001
                    acc.violation("file-roundtrip-raises", f"{PROP}:{R.NAMES[t]}:file-roundtrip:{type(e).__name__}", wit,
                                  f"{gen.spec_label(sp)}: {type(e).__name__}: {e}")
                finally:
                    if os.path.exists(path):
                        os.unlink(path)
    acc.sample({"file": f"{R.NAMES[t]} block with every mask n in 3..5 (1 and 2 items) + a following block, reopened"}, 1)
    return acc


def _edge_shard(t):
    """Items whose frame count differs from the block's, offered through every way of handing items over.
    Refusing them is C16's subject; *if* one is accepted and written, the run table still has to stay inside
    the block's frame range and decode - otherwise gaps do not survive storage."""
    acc = core.Acc()
    nfr = 4
    ways = ["add"] + (list(specs.VIA) if t in (R.T_DATA3D, R.T_FORCE3D) else [])
    for delta in (2, -1, -3):
        m = nfr + delta
        for mask in {tuple([True] * m), tuple([True, False] + [True] * (m - 2)) if m >= 3 else tuple([True] * m)}:
            for way in ways:
                for position in (0, 1):
                    acc.n["states"] += 1
                    acc.n["evaluations"] += 1
                    acc.n["nontrivial"] += 1
                    acc.n["transitions"] += 1
                    good = gen.rle_block(t, nfr, [(True, False, True, True)], chans=[5])
                    odd = gen.rle_block(t, m, [mask], labels=["odd"], chans=[1])
                    sp_items = _items(good) + _items(odd) if position else _items(odd) + _items(good)
                    wit = {"edge": [t, delta, list(mask), way, position]}
                    desc = f"{R.NAMES[t]} block of {nfr} frames, item of {m} frames (mask {''.join('x' if p else '.' for p in mask)}) via {way}, position {position}"
                    try:
                        b = specs.build(gen.rle_block(t, nfr, []))
                        libitems = []
                        for it in sp_items:
                            libitems.append(specs.build_item(t, it, good))
                        if way == "add":
                            for k, x in enumerate(libitems):
                                if t == R.T_EMG:
                                    b.addSignal(x, channel=k)
                                elif t == R.T_PLATDATA:
                                    b.add_platform(x, k)
                                else:
                                    b.add_track(x)
                        else:
                            specs._install(b, "tracks", libitems, way)
                        data = specs.lib_encode(b)
                    except Exception:  # noqa: BLE001
                        acc.outcomes[f"{R.NAMES[t]}:edge:refused"] += 1
                        acc.n["traces"] += 1
                        continue
                    try:
                        ref, used, _ = R.decode_block(t, good["format"], data)
                        bad = None
                        if used != len(data):
                            bad = f"{len(data) - used} stray bytes after the block"
                        for i, rit in enumerate(_items(ref)):
                            for s0, k in rit["segs"]:
                                if k <= 0 or s0 < 0 or s0 + k > nfr:
                                    bad = bad or f"item {i} run ({s0},{k}) outside the {nfr} frames of the block"
                    except R.LayoutError as e:
                        bad = f"written bytes do not parse: {e}"
                    if bad is None:
                        try:
                            d, _ = specs.lib_decode(t, good["format"], data)
                            specs.extract(d)
                        except Exception as e:  # noqa: BLE001
                            bad = f"the library cannot decode what it wrote: {type(e).__name__}: {e}"
                    if bad:
                        acc.violation("accepted-item-breaks-run-table", f"{PROP}:{R.NAMES[t]}:edge:{way}", wit, f"{desc}: accepted, then {bad}")
                    else:
                        acc.outcomes[f"{R.NAMES[t]}:edge:accepted-and-sound"] += 1
                        acc.n["traces"] += 1
    acc.sample({"edge": f"{R.NAMES[t]}: items of n+2 / n-1 / n-3 frames through every hand-over path; judged only if accepted"}, 1)
    return acc


def _any(shard):
    if shard[0] == "file":
        return _file_shard(shard[1])
    if shard[0] == "edge":
        return _edge_shard(shard[1])
    return _shard(shard)


def run(tier):
    _shard.tier = tier
    acc = core.pmap(__name__, "_any", [("file", t) for t in gen.RLE_TYPES] + [("edge", t) for t in gen.RLE_TYPES] + shape.shards(gen.RLE_TYPES, 4))
    acc.merge(core.pmap("mc.editwalk", "run_shard", editwalk.shards(PROP, tier)))
    return acc


def replay(w):
    if w.get("editwalk"):
        return editwalk.replay(w)
    if w.get("edge"):
        acc = _edge_shard(w["edge"][0])
        for v in acc.violations:
            if v["witness"] == w:
                return core.Violation(v["clause"], v["sig"], w, v["detail"])
        return None
    if w.get("file"):
        sp = specs.load(w["spec"])
        acc = _file_shard(sp["type"])
        for v in acc.violations:
            if v["witness"]["spec"] == w["spec"]:
                return core.Violation(v["clause"], v["sig"], w, v["detail"])
        return None
    try:
        check_one(specs.load(w["spec"]), w["opts"], core.Acc(), w.get("tag", ""))
    except core.Violation as v:
        return v
    return None
