"""C02 - declared size = bytes written = bytes consumed.

Every builder state (all nine kinds) is built item by item on the real classes; after every
builder step the block's nBytes must equal the length the real writer produces, the growth
caused by the step must equal the nBytes the new item declares for itself, and the real
reader must stop exactly at the end (a sentinel follows the block).  For the BTS capture:
nBytes of each decoded block = size in the jump table = bytes consumed = distance to the
next block."""
import io

from .. import core, editwalk, env, shape, specs
from .. import tdfref as R

PROP = "C02"
RULE = ("states = distinct builder states incl. every prefix of the item list (one builder transition per item); "
        "oracle per state: nBytes == len(written) == reader position before an 0xEE sentinel; per transition: "
        "growth == item.nBytes; plus the 8 capture blocks; plus inputs at the edge of the accepted domain (text of exactly "
        "the field width +-1..2, +-inf as / beside the first component of a frame, half-missing frames): refused or sized "
        "consistently; non-trivial = >=2 items or a gap / None cell")
RULE = RULE + editwalk.RULE_SUFFIX
ASSUMPTIONS = [
    "items are observed through public iteration and their public nBytes attribute",
    "alphabets and frame-count bounds as in C01",
    "capture: tests/test_files/2838~aa~Walking 01.tdf is the only BTS-written file available",
]
SENT = b"\xee" * 24


def _items_key(sp):
    for k in ("tracks", "items", "cams", "channels", "events"):
        if k in sp:
            return k
    return None


def _prefix(sp, j):
    k = _items_key(sp)
    if k is None:
        return sp
    p = dict(sp)
    p[k] = sp[k][:j]
    if sp["type"] == R.T_CALIB:
        p["map"] = sp["map"][:j]
    return p


def _lib_items(obj, t):
    if t == R.T_PLATDATA:
        return [p for _, p in obj]
    if t == R.T_PLATCAL:
        return [p for _, p in obj.platforms]
    if t == R.T_CALIB:
        return list(obj.cam_data)
    if t == R.T_DATA2D:
        return []
    return list(obj)


class Refused(Exception):
    pass


def _sizes(sp, opts, acc, tag):
    t, fmt = sp["type"], sp["format"]
    may_refuse = opts.get("may_refuse")
    opts = {k: v for k, v in opts.items() if k != "may_refuse"}
    try:
        obj = specs.build(sp, **opts)
        acc.n["transitions"] += 1
        declared = obj.nBytes
        data = specs.lib_encode(obj)
    except Exception as e:
        if may_refuse:
            raise Refused()
        raise shape.viol(PROP, sp, "valid-block-refused", tag, f"{type(e).__name__}: {e}", type(e).__name__)
    if int(declared) != len(data):
        raise shape.viol(PROP, sp, "nBytes!=written", tag, f"declares {declared}, writes {len(data)}")
    try:
        d, pos = specs.lib_decode(t, fmt, data, SENT)
    except Exception as e:
        raise shape.viol(PROP, sp, "decode-raises", tag, f"{type(e).__name__}: {e}", type(e).__name__)
    if pos != len(data):
        raise shape.viol(PROP, sp, "consumed!=written", tag, f"reader stops at {pos}, block has {len(data)} bytes")
    try:
        nb2 = int(d.nBytes)
    except Exception as e:
        raise shape.viol(PROP, sp, "decoded-nBytes-raises", tag, f"{type(e).__name__}: {e}")
    if nb2 != len(data):
        raise shape.viol(PROP, sp, "decoded-nBytes!=written", tag, f"decoded block declares {nb2}, bytes {len(data)}")
    # the same block as other software stores it (every don't-care byte filled, all byte values occur): consumed to
    # the byte as well, and the decoded block declares the size it occupies
    if not may_refuse:
        try:
            noisy = R.encode_block(sp, junk=lambda k: bytes((i * 7 + 0x41) % 255 + 1 for i in range(k)))
        except Exception:  # noqa: BLE001
            noisy = None
        if noisy is not None and noisy != data:
            try:
                d2, pos2 = specs.lib_decode(t, fmt, noisy, SENT)
                nb3 = int(d2.nBytes)
            except Exception as e:
                raise shape.viol(PROP, sp, "decode-raises", tag, f"layout-conformant bytes with filled padding: {type(e).__name__}: {e}", "foreign")
            if pos2 != len(noisy) or nb3 != len(noisy):
                raise shape.viol(PROP, sp, "consumed!=written", tag, f"layout-conformant bytes with filled padding: reader stops at {pos2}, "
                                 f"decoded block declares {nb3}, block has {len(noisy)} bytes", "foreign")
    return obj, len(data)


def check_one(sp, opts, acc, tag=""):
    try:
        return _check_one(sp, opts, acc, tag)
    except Refused:
        return "refused (edge of the domain)"


def edge_inputs(t, tier):
    """Inputs at the edge of what the library accepts.  Whether it accepts them is not this property's
    business; *if* it does, the three sizes must agree like for any other block.
    * text of exactly the field's width, one more, one less (every labelled kind, first / last item);
    * +-inf as first component of a frame (the library stores no sample for such a frame), +-inf elsewhere,
      a frame whose first component is NaN while others are numbers (run-length coded kinds)."""
    import numpy as np

    from .. import gen

    may = {"may_refuse": True}
    if t in gen.RLE_TYPES:
        w = gen._width(t)
        for v in gen.F32X[:2]:
            for fr in (0, 1, 2):
                for q in sorted({0, min(1, w - 1), w - 1}):
                    for items in (1, 2):
                        sp = gen.rle_block(t, 3, [(True, True, True)] * items, chans=[5, 1])
                        gen._poke(sp, t, fr * w + q, v)
                        yield ("edge-inf", sp, may)
        if w > 1:
            for fr in (0, 1, 2):
                sp = gen.rle_block(t, 3, [(True, True, True), (True, False, True)], chans=[5, 1])
                gen._poke(sp, t, fr * w, np.float32("nan"))
                yield ("edge-halfmissing", sp, may)
    for width, mk in _text_fields(t):
        for n in (width - 2, width - 1, width, width + 1):
            for where in (0, 1):
                yield ("edge-text", mk("q" * n, where), may)
            yield ("edge-text", mk("é" * n, 0), may)


def _text_fields(t):
    from .. import gen as g

    def two(lab, where, a="k0", b="k1"):
        labs = [a, b]
        labs[where] = lab
        return labs

    if t == R.T_DATA3D:
        yield 256, lambda lab, wh: g.rle_block(t, 2, [(True, False), (False, True)], labels=two(lab, wh))
    elif t in (R.T_EMG, R.T_FORCE3D):
        yield 256, lambda lab, wh: g.rle_block(t, 2, [(True, False), (False, True)], labels=two(lab, wh))
    elif t == R.T_PLATCAL:
        yield 256, lambda lab, wh: g.platcal([(3, g.mk_platinfo(two(lab, wh)[0], 0)), (1, g.mk_platinfo(two(lab, wh)[1], 1))])
    elif t == R.T_EVENTS:
        yield 256, lambda lab, wh: g.events([g.mk_event(two(lab, wh)[0], 1, 2, 0), g.mk_event(two(lab, wh)[1], 0, 1, 1)])
    elif t == R.T_OPT:
        for field in ("lens", "ctype", "name"):
            def mk(lab, wh, field=field):
                chans = [g.mk_chan(0), g.mk_chan(1)]
                chans[wh][field] = lab
                return g.optical(chans)
            yield 32, mk


def _check_one(sp, opts, acc, tag=""):
    k = _items_key(sp)
    nitems = len(sp[k]) if k else 0
    if sp["type"] == R.T_DATA2D:
        _sizes(sp, opts, acc, tag)
        return "sized"
    prev = None
    for j in range(nitems + 1):
        obj, n = _sizes(_prefix(sp, j), opts, acc, tag)
        if j:
            item = _lib_items(obj, sp["type"])[j - 1]
            extra = 2 if sp["type"] in (R.T_EMG, R.T_PLATDATA, R.T_PLATCAL, R.T_CALIB) else 0  # its map slot
            try:
                inb = int(item.nBytes)
            except Exception as e:
                raise shape.viol(PROP, sp, "item-nBytes-raises", tag, f"{type(e).__name__}: {e}")
            if n - prev != inb + extra:
                raise shape.viol(PROP, sp, "item-nBytes!=growth", tag,
                                 f"item {j - 1} declares {inb} (+{extra} map), block grew by {n - prev}")
            acc.n["item_checks"] += 1
        prev = n
    return "sized"


def capture_shard(_):
    acc = core.Acc()
    n = specs.lib()
    data = open(env.CAPTURE, "rb").read()
    ref = R.parse_file(data)
    live = [e for e in ref["entries"] if e["type"] != 0]
    ends = sorted([e["offset"] for e in live] + [len(data)])
    with n.tdf.Tdf(env.CAPTURE) as tdf:
        for i, e in enumerate(ref["entries"]):
            if e["type"] == 0:
                continue
            acc.n["states"] += 1
            acc.n["nontrivial"] += 1
            acc.n["evaluations"] += 1
            nxt = min(x for x in ends if x > e["offset"])
            blk = tdf.get_block(i)
            pos = tdf.handler.tell()
            acc.n["transitions"] += 1
            what = f"capture block {i} ({R.NAMES[e['type']]})"
            wit = {"capture_block": i}
            if int(blk.nBytes) != e["size"]:
                acc.violation("capture-nBytes!=table", f"{PROP}:capture:{R.NAMES[e['type']]}:nBytes", wit,
                              f"{what}: nBytes {blk.nBytes}, jump table says {e['size']}")
            elif pos - e["offset"] != e["size"] or nxt - e["offset"] != e["size"]:
                acc.violation("capture-consumed!=table", f"{PROP}:capture:{R.NAMES[e['type']]}:consumed", wit,
                              f"{what}: consumed {pos - e['offset']}, table {e['size']}, next block at +{nxt - e['offset']}")
            elif len(specs.lib_encode(blk)) != e["size"]:
                acc.violation("capture-written!=table", f"{PROP}:capture:{R.NAMES[e['type']]}:written", wit,
                              f"{what}: re-encoding has {len(specs.lib_encode(blk))} bytes, table {e['size']}")
            else:
                acc.outcomes["capture:sized"] += 1
                acc.n["traces"] += 1
            acc.sample({"capture_block": i, "kind": R.NAMES[e["type"]], "size": e["size"]}, 8)
    return acc


def _shard(shard):
    if shard == "capture":
        return capture_shard(shard)
    return shape.run_shard(shard, _shard.tier, check_one, PROP, extra_inputs=edge_inputs)


def run(tier):
    _shard.tier = tier
    acc = core.pmap(__name__, "_shard", ["capture"] + shape.shards())
    acc.merge(core.pmap("mc.editwalk", "run_shard", editwalk.shards(PROP, tier)))
    return acc


def replay(w):
    if w.get("editwalk"):
        return editwalk.replay(w)
    if "capture_block" in w:
        acc = capture_shard(None)
        for v in acc.violations:
            if v["witness"] == w:
                return core.Violation(v["clause"], v["sig"], w, v["detail"])
        return None
    return shape.replay(w, check_one, extra_inputs=edge_inputs)
