"""C01 - encoding a block and decoding it gives back the same block.

Shape-space exploration: every builder state of gen.family (all nine writable kinds) is
built through the public constructors, encoded by the real writer, decoded by the real reader
under every allocator poison, and compared field by field (public attributes, bit-for-bit at
on-disk width, gap positions) with the spec; the decoded block must re-encode to the same
bytes."""
from .. import core, editwalk, env, shape, specs
from .. import tdfref as R

PROP = "C01"
RULE = ("states = distinct builder states (block kind x reference encoding x build options) of gen.family; "
        "each is built/encoded/decoded on the real codec under 3 allocator poisons; non-trivial = >=2 items or "
        "an item with a gap / a None cell")
RULE = RULE + editwalk.RULE_SUFFIX
ASSUMPTIONS = [
    "values outside the alphabets (8 float32 / 9 float64 bit patterns, listed labels, ints) are not explored",
    "frame counts bounded by the tier (single item: all masks n<=8 quick / n<=12 thorough)",
    "+-inf excluded (library stores inf in the first component as a gap; outside 'extreme magnitudes')",
    "EMG channel map and Data2D camera map have no public accessor: compared through private names if present, "
    "and always through re-encoding identity",
]


def check_one(sp, opts, acc, tag=""):
    t, fmt = sp["type"], sp["format"]
    try:
        obj = specs.build(sp, **opts)
        acc.n["transitions"] += 1
        b1 = specs.lib_encode(obj)
        acc.n["transitions"] += 1
    except Exception as e:
        raise shape.viol(PROP, sp, "valid-block-refused", tag, f"{type(e).__name__}: {e}", type(e).__name__)
    first = None
    for poison in env.POISONS:
        try:
            d, pos = specs.lib_decode(t, fmt, b1, poison=poison)
            acc.n["transitions"] += 1
            got = specs.extract(d)
        except Exception as e:
            raise shape.viol(PROP, sp, "decode-raises", tag, f"{type(e).__name__}: {e}", type(e).__name__)
        df = specs.diff(sp, got)
        if df:
            raise shape.viol(PROP, sp, "field-differs", tag, f"poison={poison:#x} {df}",
                             df.split(":")[0].split("[")[0])
        try:
            b2 = specs.lib_encode(d)
            acc.n["transitions"] += 1
        except Exception as e:
            raise shape.viol(PROP, sp, "reencode-raises", tag, f"{type(e).__name__}: {e}", type(e).__name__)
        if b2 != b1:
            raise shape.viol(PROP, sp, "reencode-differs", tag,
                             f"poison={poison:#x} len {len(b1)} vs {len(b2)} first diff at "
                             f"{next((i for i, (x, y) in enumerate(zip(b1, b2)) if x != y), min(len(b1), len(b2)))}")
        if first is None:
            first = b2
    return "roundtrip"


def _shard(shard):
    return shape.run_shard(shard, _shard.tier, check_one, PROP)


def run(tier):
    _shard.tier = tier
    acc = core.pmap(__name__, "_shard", shape.shards())
    acc.merge(core.pmap("mc.editwalk", "run_shard", editwalk.shards(PROP, tier)))
    return acc


def replay(w):
    if w.get("editwalk"):
        return editwalk.replay(w)
    return shape.replay(w, check_one)


def _wrap(fn):
    try:
        fn()
    except core.Violation as v:
        return v
    return None
