"""C01 - encoding a block and decoding it gives back the same block.

Shape-space exploration: every builder state of gen.family (all nine writable kinds) is
built through the public constructors, encoded by the real writer, decoded by the real reader
under every allocator poison, and compared field by field (public attributes, bit-for-bit at
on-disk width, gap positions) with the spec; the decoded block must re-encode to the same
bytes."""
from .. import core, editwalk, env, gen, shape, specs
from .. import tdfref as R

PROP = "C01"
RULE = ("states = distinct builder states (block kind x reference encoding x build options) of gen.family; "
        "each is built/encoded/decoded on the real codec under 3 allocator poisons; non-trivial = >=2 items or "
        "an item with a gap / a None cell")
RULE = RULE + editwalk.RULE_SUFFIX
ASSUMPTIONS = [
    "values outside the alphabets (8 float32 / 9 float64 bit patterns, listed labels, ints) are not explored",
    "frame counts bounded by the tier (single item: all masks n<=8 quick / n<=12 thorough)",
    "+-inf excluded (library stores inf in the first component as a gap; outside 'extreme magnitudes')",
    "EMG channel map and Data2D camera map have no public accessor: compared through private names if present, "
    "and always through re-encoding identity",
]


OUTSIDE = ("floatx", "partial")   # families of gen.family beyond this property's quantifier ("NaN only as a wholly-missing frame")


def check_one(sp, opts, acc, tag=""):
    if tag.split("/")[0] in OUTSIDE:
        return "outside-quantifier (not judged)"
    t, fmt = sp["type"], sp["format"]
    try:
        obj = specs.build(sp, **opts)
        acc.n["transitions"] += 1
        b1 = specs.lib_encode(obj)
        acc.n["transitions"] += 1
    except Exception as e:
        raise shape.viol(PROP, sp, "valid-block-refused", tag, f"{type(e).__name__}: {e}", type(e).__name__)
    first = None
    for poison in env.POISONS:
        try:
            d, pos = specs.lib_decode(t, fmt, b1, poison=poison)
            acc.n["transitions"] += 1
            got = specs.extract(d)
        except Exception as e:
            raise shape.viol(PROP, sp, "decode-raises", tag, f"{type(e).__name__}: {e}", type(e).__name__)
        df = specs.diff(sp, got)
        if df:
            raise shape.viol(PROP, sp, "field-differs", tag, f"poison={poison:#x} {df}",
                             df.split(":")[0].split("[")[0])
        try:
            b2 = specs.lib_encode(d)
            acc.n["transitions"] += 1
        except Exception as e:
            raise shape.viol(PROP, sp, "reencode-raises", tag, f"{type(e).__name__}: {e}", type(e).__name__)
        if b2 != b1:
            raise shape.viol(PROP, sp, "reencode-differs", tag,
                             f"poison={poison:#x} len {len(b1)} vs {len(b2)} first diff at "
                             f"{next((i for i, (x, y) in enumerate(zip(b1, b2)) if x != y), min(len(b1), len(b2)))}")
        if first is None:
            first = b2
    return "roundtrip"


def shared_items_shard(t):
    """One item object as a member of TWO blocks (other channel / other position / other header in the
    second one): each block must still round-trip to its own content."""
    import copy

    acc = core.Acc()
    n = 3
    if t in gen.RLE_TYPES:
        a = gen.rle_block(t, n, [(True, False, True), (True, True, True)], chans=[1, 5])
    elif t == R.T_PLATCAL:
        a = gen.platcal([(1, gen.mk_platinfo("p", 1)), (5, gen.mk_platinfo("q", 2))])
    elif t == R.T_EVENTS:
        a = gen.events([gen.mk_event("a", 1, 2), gen.mk_event("b", 0, 1, 3)])
    elif t == R.T_OPT:
        a = gen.optical([gen.mk_chan(0), gen.mk_chan(1)])
    else:
        return acc
    k = next(k for k in ("tracks", "items", "channels", "events") if k in a)
    b = copy.deepcopy(a)
    b[k] = list(reversed(b[k]))
    if k == "items":
        b[k] = [(c + 20, it) for c, it in b[k]]          # the same items on other channels
    if "frequency" in b:
        b["frequency"] = a["frequency"] + 7
    acc.n["states"] += 1
    acc.n["evaluations"] += 1
    acc.n["nontrivial"] += 1
    wit = {"shared_items": t}
    try:
        oa = specs.build(a)
        items = list(reversed(editwalk.lib_items(oa, t)))
        ob = specs.build({**b, k: []})
        for (entry, it) in zip(b[k], items):
            if t in (R.T_DATA3D, R.T_FORCE3D):
                ob.add_track(it)
            elif t == R.T_EMG:
                ob.addSignal(it, channel=entry[0])
            elif t in (R.T_PLATDATA, R.T_PLATCAL):
                ob.add_platform(it, entry[0])
            elif t == R.T_EVENTS:
                ob.events.append(it)
            else:
                ob.channels.append(it)
        acc.n["transitions"] += 4
        for name, obj, sp in (("first block", oa, a), ("second block", ob, b), ("first block again", oa, a)):
            data = specs.lib_encode(obj)
            got = specs.extract(specs.lib_decode(t, sp["format"], data)[0])
            df = specs.diff(sp, got)
            if df:
                acc.violation("field-differs", f"{PROP}:{R.NAMES[t]}:field-differs:shared-items:{df.split(':')[0].split('[')[0]}", wit,
                              f"{R.NAMES[t]}: the {name}, whose item objects are also members of another block, decodes differently: {df}")
                break
        else:
            acc.outcomes[f"{R.NAMES[t]}:shared-items:roundtrip"] += 1
            acc.n["traces"] += 1
    except Exception as e:  # noqa: BLE001
        acc.violation("valid-block-refused", f"{PROP}:{R.NAMES[t]}:valid-block-refused:shared-items:{type(e).__name__}", wit,
                      f"{R.NAMES[t]} with item objects shared by two blocks: {type(e).__name__}: {e}")
    acc.sample({"shared items": f"{R.NAMES[t]}: two blocks holding the same item objects (other channels / order / header)"}, 1)
    return acc


def _shard(shard):
    if shard[0] == "shared":
        return shared_items_shard(shard[1])
    return shape.run_shard(shard, _shard.tier, check_one, PROP)


def run(tier):
    _shard.tier = tier
    acc = core.pmap(__name__, "_shard", [("shared", t) for t in R.WRITABLE] + shape.shards())
    acc.merge(core.pmap("mc.editwalk", "run_shard", editwalk.shards(PROP, tier)))
    return acc


def replay(w):
    if w.get("editwalk"):
        return editwalk.replay(w)
    if "shared_items" in w:
        acc = shared_items_shard(w["shared_items"])
        return core.Violation(acc.violations[0]["clause"], acc.violations[0]["sig"], w, acc.violations[0]["detail"]) if acc.violations else None
    return shape.replay(w, check_one)


def _wrap(fn):
    try:
        fn()
    except core.Violation as v:
        return v
    return None
