"""C15 - channel numbers stay attached to their items through edits.

State-space exploration of the three channel-mapped block classes (EMG, force-platform
calibration, force-platform data): BFS to a depth bound over add (automatic / explicit channel
0,1,5), remove (by label / index / item), bulk add with and without channels, bulk remove,
bulk assignment, encode->decode (continue on the decoded object), starting from an empty block,
a constructor-filled block and a block decoded from bytes.  Items come from a pool of four
pairwise distinct items, at most three in a block (automatic channels grow, so the bound is the depth)."""
import numpy as np

from .. import core, gen, ohist, specs
from .. import tdfref as R

PROP = "C15"
RULE = ("states = (origin new|ctor|decoded, ordered list of (channel, item)) reached by BFS to depth 5 (quick) / 6 (thorough) per class; "
        "items from a pool of 4, <=3 per block, explicit channels {0,1,5}; every op applied in every state; oracle: "
        "public (channel,item) view == model == pairs in the encoding (reference decoder), nBytes == written; "
        "non-trivial = >= 2 items or a decoded origin")
ASSUMPTIONS = [
    "an automatic add may refuse with ValueError (the statement only constrains the channel that is assigned)",
    "bulk operations that fail midway and the force-platform-data 'platforms =' assignment (append or replace is not "
    "specified) are checked for the invariants only: lengths equal, channels unique, survivors keep their channel",
    "negative indices are not in the remove menu",
]
POOL = 4
MAXITEMS = 3
CHANNELS = (0, 1, 5)
NF = 2


def item_spec(t, i):
    if t == R.T_EMG:
        return gen.mk_emgsig(NF, (True, i % 2 == 0), f"s{i}", 10 * i + 1)
    if t == R.T_PLATCAL:
        return gen.mk_platinfo(f"p{i}", 10 * i + 1)
    return gen.mk_plat(NF, (True, i % 2 == 0), 10 * i + 1)


def item_id(t, lib_item):
    """Which pool item is this?  (by content)"""
    for i in range(POOL):
        sp = item_spec(t, i)
        if t == R.T_EMG:
            if lib_item.label == sp["label"] and specs.arr_equal(np.asarray(lib_item.data, "<f4"), sp["data"]):
                return i
        elif t == R.T_PLATCAL:
            if lib_item.label == sp["label"] and specs.arr_equal(np.asarray(lib_item.size, "<f4"), sp["size"]):
                return i
        else:
            if specs.arr_equal(np.asarray(lib_item.application_point, "<f4").reshape(NF, 2), sp["ap"]):
                return i
    return None


def spec_item_id(t, it):
    for i in range(POOL):
        sp = item_spec(t, i)
        key = "data" if t == R.T_EMG else ("size" if t == R.T_PLATCAL else "ap")
        if specs.arr_equal(np.asarray(it[key]), np.asarray(sp[key])) and it.get("label") == sp.get("label"):
            return i
    return None


class ChanMachine(ohist.Machine):
    init_in_key = False

    def __init__(self, t):
        self.t = t
        self.name = R.NAMES[t]

    # ---- construction helpers
    def new_block(self):
        n = specs.lib()
        if self.t == R.T_EMG:
            return n.emg.EMG(1000, NF, 0.25)
        if self.t == R.T_PLATCAL:
            return n.pc.ForcePlatformsCalibrationDataBlock()
        return n.pd.ForcePlatformsDataBlock(2.5, 800, NF)

    def base_spec(self, pairs):
        items = [(c, item_spec(self.t, i)) for c, i in pairs]
        if self.t == R.T_EMG:
            return gen.emg(NF, items)
        if self.t == R.T_PLATCAL:
            return gen.platcal(items)
        return gen.platdata(NF, items)

    def lib_item(self, i):
        return specs.build_item(self.t, item_spec(self.t, i), self.base_spec([]))

    def initial(self):
        t = self.t
        out = [("new", lambda: ((self.new_block(), "new"), []))]
        if t == R.T_PLATCAL:
            def ctor():
                n = specs.lib()
                source = [self.lib_item(0), self.lib_item(1)]
                b = n.pc.ForcePlatformsCalibrationDataBlock(platforms=source)
                # the caller goes on using its own list: the block must not follow it
                source.append(self.lib_item(3))
                del source[0]
                # the constructor assigns channels itself: whatever it picked becomes the model
                return (b, "ctor"), "ctor-unknown"
            out.append(("ctor", ctor))

        def decoded():
            pairs = [(40000, 2), (1, 0)] if t == R.T_PLATDATA else [(5, 2), (1, 0)]
            data = R.encode_block(self.base_spec(pairs))
            b = specs.lib_decode(t, self.base_spec([])["format"], data)[0]
            return (b, "decoded"), list(pairs)
        out.append(("decoded", decoded))
        return out

    # ---- views
    def view(self, b):
        """Public (channel, pool-id) view; raises Violation if the public views disagree."""
        t = self.t
        if t == R.T_EMG:
            items = list(b)
            enc = self.encoded_pairs(b)
            if len(enc) != len(items):
                raise self.V("lengths-differ", f"{len(items)} signals, {len(enc)} (channel, signal) pairs in the encoding")
            return [(c, item_id(t, it)) for (c, _), it in zip(enc, items)]
        if t == R.T_PLATCAL:
            pl = list(b.platforms)
            if len(pl) != len(b):
                raise self.V("lengths-differ", f"len(block) = {len(b)} items but {len(pl)} (channel, item) pairs")
            return [(int(c), item_id(t, p)) for c, p in pl]
        pl = list(b)
        if len(pl) != len(list(b.platforms)):
            raise self.V("lengths-differ", f"{len(list(b.platforms))} platforms but {len(pl)} (channel, platform) pairs")
        return [(int(c), item_id(t, p)) for c, p in pl]

    def encoded_pairs(self, b):
        try:
            data = specs.lib_encode(b)
        except Exception as e:  # noqa: BLE001
            raise self.V("encode-raises", f"{type(e).__name__}: {e}", type(e).__name__)
        try:
            nb = int(b.nBytes)
        except Exception as e:  # noqa: BLE001
            raise self.V("nBytes-raises", f"{type(e).__name__}: {e}")
        if nb != len(data):
            raise self.V("lengths-differ", f"nBytes {nb} but {len(data)} bytes written (channel list and item list out of step)")
        try:
            sp, used, _ = R.decode_block(self.t, self.base_spec([])["format"], data)
            if used != len(data):
                raise R.LayoutError("stray bytes")
        except R.LayoutError as e:
            raise self.V("encoding-inconsistent", f"encoding does not parse: {e}")
        return [(int(c), spec_item_id(self.t, it)) for c, it in sp["items"]]

    def V(self, clause, detail, extra=""):
        return core.Violation(clause, f"{PROP}:{self.name}:{clause}{(':' + extra) if extra else ''}", None, detail)

    # ---- alphabet
    def ops(self, model):
        t = self.t
        if model == "ctor-unknown":
            return [("adopt",)]
        present = [i for _, i in model]
        free = [i for i in range(POOL) if i not in present]
        out = []
        if len(model) < MAXITEMS and free:
            out.append(("add", None))
            out += [("add", c) for c in CHANNELS + ((40000,) if t == R.T_PLATDATA else ())]
        if t == R.T_EMG:
            out += [("remove_label", i) for _, i in model[:1] + model[-1:]] + [("remove_label", "absent")]
        if t == R.T_PLATCAL:
            if model:
                out += [("remove_index", 0), ("remove_index", len(model) - 1), ("remove_item", model[0][1]), ("remove_item", model[-1][1])]
            out += [("remove_index", len(model))] + ([("remove_item", "absent")] if free else [])
            if len(model) + 2 <= MAXITEMS and len(free) >= 2:
                out += [("bulk_add", None), ("bulk_add", (5, 0)), ("bulk_add", (7, 7))]
            if len(model) >= 2:
                out += [("bulk_remove", "items"), ("bulk_remove", "indices")]
            if len(model) >= 2:   # dropping one pair by re-assigning a filtered view of the block itself (lazy or not)
                out += [("filter", "gen-self"), ("filter", "gen-property"), ("filter", "list-self"), ("filter", "reversed")]
            out += [("assign", ((3, free[0]),)) if free else ("assign", ()), ("assign", ())]
            if len(free) >= 2:
                out += [("assign", ((1, free[0]), (0, free[1]))), ("assign", ((2, free[0]), (2, free[1])))]
        if t == R.T_PLATDATA and len(model) + 1 <= MAXITEMS and free:
            out.append(("assign_pd", 1))
            out.append(("assign_pd_bad", "tail"))   # a valid platform followed by a non-platform
            out.append(("assign_pd_bad", "head"))   # a non-platform first
        out.append(("roundtrip",))
        return list(dict.fromkeys(out))

    def describe(self, op):
        return op[0] + (f"({', '.join(map(str, op[1:]))})" if len(op) > 1 else "")

    # ---- transition
    def step(self, impl, model, op):
        b, origin = impl
        t = self.t
        kind = op[0]
        if kind == "adopt":
            pairs = self.view(b)
            if any(i is None for _, i in pairs) or [i for _, i in pairs] != [0, 1]:
                raise self.V("constructor-items-lost", f"constructor-filled block shows {pairs} for items [0, 1]", "ctor")
            if len({c for c, _ in pairs}) != len(pairs):
                raise self.V("channels-not-unique", f"constructor-filled block has channels {pairs}", "ctor")
            return impl, list(pairs)
        model = list(model)
        before = self.view(b)
        present = [i for _, i in model]
        free = [i for i in range(POOL) if i not in present]
        used = {c for c, _ in model}

        def call(fn):
            try:
                fn()
                return None
            except Exception as e:  # noqa: BLE001
                return e

        if kind == "add":
            i, c = free[0], op[1]
            it = self.lib_item(i)
            if t == R.T_EMG:
                err = call(lambda: b.addSignal(it) if c is None else b.addSignal(it, channel=c))
            else:
                err = call(lambda: b.add_platform(it) if c is None else b.add_platform(it, c))
            after = self.view(b)
            if c is not None and c in used:
                if err is None:
                    raise self.V("taken-channel-accepted", f"explicit channel {c} already in use was accepted: {after}", origin)
                if not isinstance(err, ValueError):
                    raise self.V("taken-channel-wrong-exception", f"{type(err).__name__}: {err}", origin)
                if after != before:
                    raise self.V("refused-add-changed-block", f"{before} -> {after}", origin)
            elif c is not None:
                if err is not None:
                    raise self.V("free-channel-refused", f"explicit free channel {c}: {type(err).__name__}: {err}", origin)
                model.append((c, i))
            else:
                if err is not None:
                    if isinstance(err, ValueError) and after == before:
                        return impl, model  # refusing automatic add: allowed
                    raise self.V("auto-add-raises", f"{type(err).__name__}: {err}", origin)
                if len(after) != len(before) + 1:
                    raise self.V("auto-add-no-effect", f"{before} -> {after}", origin)
                got = after[-1][0]
                if got in used:
                    raise self.V("auto-channel-in-use", f"automatic channel {got} is already used by {model}", origin)
                model.append((got, i))
        elif kind == "remove_label":
            i = op[1]
            label = "no-such-label" if i == "absent" else f"s{i}"
            err = call(lambda: b.removeSignal(label))
            if i == "absent":
                if err is None or self.view(b) != before:
                    raise self.V("absent-remove", f"removeSignal of an absent label: err={err!r:.60} {before} -> {self.view(b)}", origin)
            else:
                if err is not None:
                    raise self.V("remove-raises", f"removeSignal({label!r}): {type(err).__name__}: {err}", origin)
                model = [(c, j) for c, j in model if j != i]
        elif kind in ("remove_index", "remove_item"):
            if kind == "remove_index":
                idx = op[1]
                arg = idx
                valid = idx < len(model)
            else:
                valid = op[1] != "absent"
                idx = None if not valid else [j for _, j in model].index(op[1])
                arg = self.lib_item(free[0]) if not valid else list(b)[idx][1]
            err = call(lambda: b.remove_platform(arg))
            if not valid:
                if err is None or self.view(b) != before:
                    raise self.V("absent-remove", f"{kind}: err={err!r:.60} {before} -> {self.view(b)}", origin)
            else:
                if err is not None:
                    raise self.V("remove-raises", f"{kind}({op[1]}): {type(err).__name__}: {err}", origin)
                del model[idx]
        elif kind == "bulk_add":
            its = [self.lib_item(free[0]), self.lib_item(free[1])]
            chans = op[1]
            err = call(lambda: b.add_platforms(its) if chans is None else b.add_platforms(its, list(chans)))
            after = self.view(b)
            expect_fail = chans is not None and (len(set(chans)) < 2 or any(c in used for c in chans))
            if not expect_fail:
                if err is not None:
                    raise self.V("bulk-add-raises", f"{type(err).__name__}: {err}", origin)
                if chans is None:
                    new = after[len(before):]
                    if [j for _, j in new] != free[:2] or any(c in used for c, _ in new) or len({c for c, _ in new}) != 2:
                        raise self.V("auto-channel-in-use", f"bulk automatic add: {before} -> {after}", origin)
                    model += new
                else:
                    model += [(chans[0], free[0]), (chans[1], free[1])]
            else:
                if err is None:
                    raise self.V("taken-channel-accepted", f"bulk add with channels {chans} on {before} accepted: {after}", origin)
                model = self.resync(before, after, free[:2], origin)
        elif kind == "bulk_remove":
            if op[1] == "items":
                args = [list(b)[0][1], list(b)[-1][1]]
                err = call(lambda: b.remove_platforms(args))
                exp = model[1:-1]
            else:
                err = call(lambda: b.remove_platforms([0, 0]))
                exp = model[2:]
            if err is not None:
                raise self.V("remove-raises", f"bulk remove by {op[1]}: {type(err).__name__}: {err}", origin)
            model = exp
        elif kind == "assign":
            pairs = list(op[1])
            err = call(lambda: setattr(b, "platforms", [(c, self.lib_item(i)) for c, i in pairs]))
            after = self.view(b)
            if len({c for c, _ in pairs}) == len(pairs):
                if err is not None:
                    raise self.V("assign-raises", f"platforms = {pairs}: {type(err).__name__}: {err}", origin)
                model = pairs
            else:
                if err is None:
                    raise self.V("taken-channel-accepted", f"platforms = {pairs} (duplicate channel) accepted: {after}", origin)
                model = self.resync(before, after, [i for _, i in pairs], origin, allow_drop=True)
        elif kind == "filter":
            pairs_now = list(b.platforms)
            drop = pairs_now[0][1]
            if op[1] == "gen-self":
                value = ((c, p) for c, p in b if p is not drop)
                exp = model[1:]
            elif op[1] == "gen-property":
                value = ((c, p) for c, p in b.platforms if p is not drop)
                exp = model[1:]
            elif op[1] == "list-self":
                value = [(c, p) for c, p in b if p is not drop]
                exp = model[1:]
            else:
                value = reversed(b.platforms)
                exp = list(reversed(model))
            err = call(lambda: setattr(b, "platforms", value))
            if err is not None:
                raise self.V("assign-raises", f"platforms = <{op[1]} view of the block's own pairs>: {type(err).__name__}: {err}", origin)
            model = exp
        elif kind == "assign_pd":
            i = free[0]
            err = call(lambda: setattr(b, "platforms", [self.lib_item(i)]))
            after = self.view(b)
            if err is not None and not isinstance(err, ValueError):
                raise self.V("assign-raises", f"platforms = [item]: {type(err).__name__}: {err}", origin)
            model = self.resync(before, after, [i], origin, allow_drop=True)
        elif kind == "assign_pd_bad":
            i = free[0]
            value = [self.lib_item(i), "not a platform"] if op[1] == "tail" else ["not a platform", self.lib_item(i)]
            err = call(lambda: setattr(b, "platforms", value))
            if err is None:
                raise self.V("invalid-element-accepted", f"platforms = [{op[1]}: non-platform] accepted", origin)
            after = self.view(b)
            model = self.resync(before, after, [i], origin, allow_drop=True)
        elif kind == "roundtrip":
            data = specs.lib_encode(b)
            try:
                b2 = specs.lib_decode(t, self.base_spec([])["format"], data)[0]
            except Exception as e:  # noqa: BLE001
                raise self.V("decode-raises", f"{type(e).__name__}: {e}", origin)
            return (b2, "decoded"), model
        else:
            raise ValueError(op)
        return (b, origin), model

    def resync(self, before, after, offered, origin, allow_drop=False):
        """Invariant-only oracle for operations whose exact outcome the statement leaves open."""
        if len({c for c, _ in after}) != len(after):
            raise self.V("channels-not-unique", f"{before} -> {after}", origin)
        old = dict((i, c) for c, i in before)
        for c, i in after:
            if i is None:
                raise self.V("unknown-item", f"{after}", origin)
            if i in old and old[i] != c and i not in offered:
                raise self.V("survivor-changed-channel", f"item {i}: channel {old[i]} -> {c}", origin)
            if i not in old and i not in offered:
                raise self.V("unknown-item", f"{after}", origin)
        if not allow_drop and [p for p in after if p[1] in old] != before:
            raise self.V("survivor-lost", f"{before} -> {after}", origin)
        return list(after)

    # ---- invariant in every state
    def observe(self, impl, model, hist):
        b, origin = impl
        if model == "ctor-unknown":
            return
        got = self.view(b)
        if got != [(int(c), i) for c, i in model]:
            raise self.V("pairs!=model", f"block shows {got}, history says {model}", origin)
        if len({c for c, _ in got}) != len(got):
            raise self.V("channels-not-unique", f"{got}", origin)
        enc = self.encoded_pairs(b)
        if enc != got:
            raise self.V("encoding-order", f"encoding emits {enc}, block shows {got}", origin)

    def canon(self, impl, model):
        return (impl[1], tuple(model) if model != "ctor-unknown" else model)

    def nontrivial(self, model):
        return model != "ctor-unknown" and len(model) >= 2


TYPES = (R.T_EMG, R.T_PLATCAL, R.T_PLATDATA)


def _shard(t):
    acc = core.Acc()
    depth = {"quick": 5, "thorough": 6}[_shard.tier]
    ohist.explore(ChanMachine(t), acc, depth=depth, tag=f"{R.NAMES[t]}:", wit_extra={"type": t})
    return acc


def run(tier):
    _shard.tier = tier
    return core.pmap(__name__, "_shard", list(TYPES))


def replay(w):
    return ohist.run_witness(ChanMachine(w["type"]), w)
