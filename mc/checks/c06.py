"""C06 - bytes on disk follow the fixed TDF layout.

(a) encode direction: for every builder state the real writer's bytes equal the independent
    layout-driven encoder's bytes; the header / jump table written by Tdf.new and add_block
    equal the reference builder's (entry field alphabets: dates, comments, sizes).
(b) decode direction: reference-encoded bytes - canonical and with junk in every don't-care
    position - decode to the spec; reference-built files are read back field by field.
(c) the BTS capture: the real decoder and the reference decoder extract the same values from
    each of the 8 blocks, every byte accounted for, and the reference decoder's view equals the
    committed golden digest (protects the reference itself from drift)."""
import datetime
import hashlib
import json
import os

import numpy as np

from .. import core, editwalk, env, gen, kdriver, shape, specs
from .. import tdfref as R

PROP = "C06"
RULE = ("states = distinct builder states of gen.family + entry/header alphabet cases + 8 capture blocks; per state "
        "real-writer bytes == reference-encoder bytes, and reference bytes (zero and junk don't-care) decode to the "
        "spec; non-trivial as in C01")
RULE = RULE + editwalk.RULE_SUFFIX
ASSUMPTIONS = [
    "the reference layout tables were confirmed on the BTS capture (8 kinds consumed to the byte); events and the "
    "BTS camera format do not occur in the capture: for them the table is pinned to the documented field order",
    "golden/capture.json was produced once by the reference decoder and is committed",
    "alphabets/bounds as in C01",
]
GOLDEN = os.path.join(env.VERIF, "golden", "capture.json")


def _junk(seed):
    state = [seed * 2654435761 % 2 ** 32 or 1]

    def junk(n):
        out = bytearray()
        for _ in range(n):
            state[0] = (state[0] * 1103515245 + 12345) % 2 ** 31
            b = (state[0] >> 16) & 0xFF
            out.append(b if b not in (0,) else 0x41)
        if n >= 2:
            out[0], out[-1] = 0x81, 0x9D      # bytes cp1252 leaves undefined must not matter either
        return bytes(out)

    return junk


DECODE_ONLY = ("floatx", "partial")   # families beyond "all valid blocks (as in C01)": layout-conformant bytes, judged on the read side only


def check_one(sp, opts, acc, tag=""):
    t, fmt = sp["type"], sp["format"]
    canon = R.encode_block(sp)
    if tag.split("/")[0] in DECODE_ONLY:
        written = canon
    else:
        try:
            obj = specs.build(sp, **opts)
            written = specs.lib_encode(obj)
            acc.n["transitions"] += 2
        except Exception as e:
            raise shape.viol(PROP, sp, "valid-block-refused", tag, f"{type(e).__name__}: {e}", type(e).__name__)
    if written != canon:
        i = next((i for i, (x, y) in enumerate(zip(written, canon)) if x != y), min(len(written), len(canon)))
        raise shape.viol(PROP, sp, "written!=layout", tag,
                         f"lengths {len(written)} vs reference {len(canon)}, first difference at byte {i}: "
                         f"{written[i:i + 8].hex()} vs {canon[i:i + 8].hex()}")
    for name, data in (("canonical", canon), ("junk", R.encode_block(sp, _junk(len(canon) + env.SEED)))):
        try:
            d, pos = specs.lib_decode(t, fmt, data, b"\xee" * 8)
            got = specs.extract(d)
            acc.n["transitions"] += 1
        except Exception as e:
            raise shape.viol(PROP, sp, "conformant-bytes-refused", tag, f"{name}: {type(e).__name__}: {e}",
                             type(e).__name__)
        if pos != len(data):
            raise shape.viol(PROP, sp, "bytes-unaccounted", tag, f"{name}: reader stops at {pos} of {len(data)}")
        df = specs.diff(sp, got)
        if df:
            raise shape.viol(PROP, sp, "decoded!=layout-values", tag, f"{name}: {df}", df.split(":")[0].split("[")[0])
    return "layout"


def fullwidth_shard(_):
    """Decode direction only: fields filled to their full width without a terminator (other software
    writes those).  The text must come back complete."""
    acc = core.Acc()
    g = gen
    T = (True, True)
    full256, full32 = "W" * 256, "V" * 32
    cases = [
        g.data3d(2, [g.mk_track3d(2, T, full256), g.mk_track3d(2, T, "next", 3)]),
        g.emg(2, [(0, g.mk_emgsig(2, T, full256)), (1, g.mk_emgsig(2, T, "next", 3))]),
        g.force3d(2, [g.mk_ftrack(2, T, full256), g.mk_ftrack(2, T, "next", 3)]),
        g.platcal([(0, g.mk_platinfo(full256)), (1, g.mk_platinfo("next", 2))]),
        g.events([g.mk_event(full256, 1, 2), g.mk_event("next", 0, 1, 4)]),
        g.optical([g.mk_chan(0, lens=full32), g.mk_chan(1)]),
        g.optical([g.mk_chan(0, ctype=full32, name=full32), g.mk_chan(1)]),
    ]
    for sp in cases:
        acc.n["states"] += 1
        acc.n["evaluations"] += 1
        acc.n["nontrivial"] += 1
        data = R.encode_block(sp, full_ok=True)
        wit = {"fullwidth": specs.dump(sp)}
        try:
            d, pos = specs.lib_decode(sp["type"], sp["format"], data, b"\xee" * 8)
            got = specs.extract(d)
            acc.n["transitions"] += 1
            df = specs.diff(sp, got)
            if pos != len(data):
                acc.violation("bytes-unaccounted", f"{PROP}:{R.NAMES[sp['type']]}:fullwidth:consumed", wit, f"reader stops at {pos} of {len(data)}")
            elif df:
                acc.violation("decoded!=layout-values", f"{PROP}:{R.NAMES[sp['type']]}:fullwidth:{df.split(':')[0].split('[')[0]}", wit,
                              f"a text field filled to its full width: {df}")
            else:
                acc.outcomes["fullwidth:decoded"] += 1
                acc.n["traces"] += 1
        except Exception as e:  # noqa: BLE001
            acc.violation("conformant-bytes-refused", f"{PROP}:{R.NAMES[sp['type']]}:fullwidth:{type(e).__name__}", wit, f"{type(e).__name__}: {e}")
    acc.sample({"fullwidth": "labels / names of exactly 256 / 32 bytes without terminator, 6 kinds"}, 1)
    return acc


# ----------------------------------------------------------------------------- container side
DATES = [datetime.datetime(1970, 1, 1, 0, 0, 0), datetime.datetime(1970, 1, 1, 0, 0, 1),
         datetime.datetime(2038, 1, 19, 3, 14, 7), datetime.datetime(2022, 6, 21, 14, 22, 52, 999999),
         datetime.datetime(2001, 9, 9, 1, 46, 40, 1),
         # before 1970: negative numbers in the signed 32-bit field, down to its minimum
         datetime.datetime(1969, 12, 31, 23, 59, 59), datetime.datetime(1901, 12, 13, 20, 45, 52)]
COMMENTS = ["", "c", "Generated by basicTDF", "é€ß comment", "z" * 255, " lead and trail  ", "tab\t"]


def _ts(d):
    return int(d.replace(tzinfo=datetime.timezone.utc).timestamp())


def container_shard(_):
    acc = core.Acc()
    n = specs.lib()
    tmp = env.scratch_dir("c06")
    evs = gen.events([gen.mk_event("e", 1, 2)])
    emg = gen.emg(3, [(1, gen.mk_emgsig(3, (True, False, True)))])
    d3 = gen.data3d(3, [gen.mk_track3d(3, (True, False, True), "m")], fmt=2)
    case = 0
    # (a) files written by the library: Tdf.new + add_block with entry-field alphabets
    for cd in DATES:
        for md in DATES[:3]:
            for comment in COMMENTS:
                case += 1
                path = os.path.join(tmp, f"w{case}.tdf")
                wit = {"container": "write", "cdate": cd.isoformat(), "mdate": md.isoformat(), "comment": comment}
                acc.n["states"] += 1
                acc.n["evaluations"] += 1
                acc.n["nontrivial"] += 1
                try:
                    b1, b2 = specs.build(evs), specs.build(emg)
                    b1.creation_date, b1.last_modification_date = cd, md
                    b2.creation_date, b2.last_modification_date = md, cd
                    tdf = n.tdf.Tdf.new(path)
                    b3 = specs.build(d3)
                    b3.creation_date, b3.last_modification_date = cd, cd
                    with tdf.allow_write() as f:
                        if case % 2 == 0:       # a refused request first: it must leave no trace in the layout
                            try:
                                f.add_block(specs.build(gen.events([gen.mk_event("ok", 1, 1), gen.mk_event("L" * 300, 1, 1)])), "never stored")
                            except Exception:  # noqa: BLE001
                                pass
                        f.add_block(b1, comment)
                        f.add_block(b2)
                        f.add_block(b3, "3D without links")
                    acc.n["transitions"] += 4
                    data = open(path, "rb").read()
                    ref = R.parse_file(data)
                    p1, p2, p3 = R.encode_block(evs), R.encode_block(emg), R.encode_block(d3)
                    hdr = (ref["ctime"], ref["mtime"], ref["atime"])
                    ent = ref["entries"]
                    want = R.build_file(
                        14,
                        [dict(type=16, format=1, payload=p1, comment=comment, ctime=_ts(cd), mtime=_ts(md),
                              atime=ent[0]["atime"]),
                         dict(type=11, format=1, payload=p2, comment="Generated by basicTDF", ctime=_ts(md),
                              mtime=_ts(cd), atime=ent[1]["atime"]),
                         dict(type=5, format=2, payload=p3, comment="3D without links", ctime=_ts(cd), mtime=_ts(cd),
                              atime=ent[2]["atime"])],
                        hdr_times=hdr, unused_times=(ent[13]["ctime"], ent[13]["mtime"], ent[13]["atime"]),
                        unused_comment="Generated by basicTDF")
                    # dates and comment of unused slots derive from now() / the library's taste: masked
                    def mask(b):
                        b = bytearray(b)
                        for k, e in enumerate(ent):
                            if e["type"] == 0:
                                off = R.HEADER + R.ENTRY * k
                                b[off + 16: off + 28] = bytes(12)
                                b[off + 32: off + 288] = bytes(256)
                        return bytes(b)

                    unused_raw_ok = all(R.field_text(e["comment_raw"]) == e["comment_raw"].rstrip(b"\0") and e["pad"] == bytes(4)
                                        for e in ent if e["type"] == 0)
                    if not unused_raw_ok:
                        acc.violation("file-written!=layout", f"{PROP}:container:write:unused-entry-padding", wit,
                                      "an unused entry carries non-zero bytes after its comment terminator / in its pad word")
                    elif mask(data) != mask(want):
                        data, want = mask(data), mask(want)
                        i = next((i for i, (x, y) in enumerate(zip(data, want)) if x != y), min(len(data), len(want)))
                        where = "header" if i < 64 else (f"entry {(i - 64) // 288} +{(i - 64) % 288}" if i < 4096 else "payload")
                        acc.violation("file-written!=layout", f"{PROP}:container:write:{where.split(' ')[0]}", wit,
                                      f"first difference at byte {i} ({where}): {data[i:i+8].hex()} vs {want[i:i+8].hex()}")
                    else:
                        acc.outcomes["container:write-layout"] += 1
                        acc.n["traces"] += 1
                except Exception as e:
                    acc.violation("container-write-raises", f"{PROP}:container:write:{type(e).__name__}", wit,
                                  f"{type(e).__name__}: {e}")
                finally:
                    if os.path.exists(path):
                        os.unlink(path)
    acc.sample({"container": "Tdf.new + add_block(events, comment) + add_block(emg)", "dates": len(DATES) * 3,
                "comments": COMMENTS[:4]})
    # (b) files built by the reference (incl. junk don't-care bytes, opaque block, small tables) read by the library
    for nslots in (1, 2, 3, 14):
        for junk in (None, _junk(7 + env.SEED)):
            for ci, comment in enumerate(COMMENTS):
                case += 1
                path = os.path.join(tmp, f"r{case}.tdf")
                live = [dict(type=16, format=1, payload=R.encode_block(evs), comment=comment, ctime=_ts(DATES[ci % 5]),
                             mtime=_ts(DATES[(ci + 1) % 5]), atime=_ts(DATES[(ci + 2) % 5]))]
                if nslots >= 2:
                    live.append(dict(type=13, format=7, payload=b"\x01\x02\x03opaque", comment="opaque " + comment[:200],
                                     ctime=5, mtime=6, atime=7))
                if nslots >= 3:
                    live.append(dict(type=11, format=1, payload=R.encode_block(emg), comment="", ctime=_ts(DATES[2]),
                                     mtime=0, atime=1))
                data = R.build_file(nslots, live, junk=junk, version=1, unused_comment="")
                open(path, "wb").write(data)
                wit = {"container": "read", "nslots": nslots, "junk": junk is not None, "comment": comment}
                acc.n["states"] += 1
                acc.n["evaluations"] += 1
                acc.n["nontrivial"] += 1
                try:
                    ref = R.parse_file(data)
                    with n.tdf.Tdf(path) as f:
                        acc.n["transitions"] += 1
                        bad = None
                        if f.version != 1 or f.nEntries != nslots or len(f.entries) != nslots:
                            bad = f"header: version {f.version} nEntries {f.nEntries}"
                        for k, (e, r) in enumerate(zip(f.entries, ref["entries"])):
                            got = (e.type.value, e.format, e.offset, e.size, _ts(e.creation_date),
                                   _ts(e.last_modification_date), _ts(e.last_access_date), e.comment)
                            exp = (r["type"], r["format"], r["offset"], r["size"], r["ctime"], r["mtime"], r["atime"],
                                   r["comment"])
                            if got != exp and bad is None:
                                bad = f"entry {k}: library {got} vs layout {exp}"
                        if bad is None:
                            blk = f.get_block(0)
                            df = specs.diff(evs, specs.extract(blk))
                            if df:
                                bad = f"block 0 read through the table: {df}"
                    if bad:
                        acc.violation("file-read!=layout", f"{PROP}:container:read:{bad.split(':')[0].split(' ')[0]}", wit, bad)
                    else:
                        acc.outcomes["container:read-layout"] += 1
                        acc.n["traces"] += 1
                except Exception as e:
                    acc.violation("container-read-raises", f"{PROP}:container:read:{type(e).__name__}", wit,
                                  f"{type(e).__name__}: {e}")
                finally:
                    os.unlink(path)
    return acc


# ----------------------------------------------------------------------------- capture
def _digest(sp):
    h = hashlib.sha256()

    def feed(x):
        if isinstance(x, dict):
            for k in sorted(x):
                if k == "segs":
                    continue
                h.update(k.encode())
                feed(x[k])
        elif isinstance(x, (list, tuple)):
            h.update(b"[%d" % len(x))
            for v in x:
                feed(v)
        elif isinstance(x, np.ndarray):
            a = np.ascontiguousarray(x)
            if a.dtype.kind == "f":
                a = np.where(np.isnan(a), np.array(np.nan, a.dtype), a)
            h.update(str(a.dtype.str).encode() + repr(a.shape).encode() + a.tobytes())
        elif isinstance(x, np.generic):
            feed(np.asarray(x))
        elif x is None:
            h.update(b"N")
        else:
            h.update(repr(x).encode())

    feed(sp)
    return h.hexdigest()


def capture_reference():
    data = open(env.CAPTURE, "rb").read()
    ref = R.parse_file(data)
    out = []
    for i, e in enumerate(ref["entries"]):
        if e["type"] == 0:
            continue
        sp, used, dc = R.decode_block(e["type"], e["format"], data, e["offset"])
        out.append({"slot": i, "type": e["type"], "format": e["format"], "offset": e["offset"], "size": e["size"],
                    "consumed": used, "digest": _digest(sp), "dontcare_bytes": sum(b - a for a, b in dc)})
    return data, ref, out


def capture_shard(_):
    acc = core.Acc()
    n = specs.lib()
    data, ref, blocks = capture_reference()
    golden = json.load(open(GOLDEN))
    if data[:16] != R.SIGNATURE:
        raise core.HarnessError("capture signature")
    with n.tdf.Tdf(env.CAPTURE) as tdf:
        for b in blocks:
            i = b["slot"]
            name = R.NAMES[b["type"]]
            wit = {"capture_block": i}
            acc.n["states"] += 1
            acc.n["evaluations"] += 1
            acc.n["nontrivial"] += 1
            g = next((x for x in golden["blocks"] if x["slot"] == i), None)
            if g is None or {k: b[k] for k in g} != g:
                raise core.HarnessError(f"reference decoder drifted from golden digest on capture block {i}: {b} vs {g}")
            if b["consumed"] != b["size"]:
                raise core.HarnessError("reference does not consume the capture block")
            sp, _, _ = R.decode_block(b["type"], b["format"], data, b["offset"])
            try:
                with env.poisoned_allocator(0x5A):
                    blk = tdf.get_block(i)
                pos = tdf.handler.tell()
                got = specs.extract(blk)
                acc.n["transitions"] += 1
            except Exception as e:
                acc.violation("capture-refused", f"{PROP}:capture:{name}:{type(e).__name__}", wit, f"{type(e).__name__}: {e}")
                continue
            df = specs.diff(sp, got)
            if pos - b["offset"] != b["size"]:
                acc.violation("capture-bytes-unaccounted", f"{PROP}:capture:{name}:consumed", wit,
                              f"library consumed {pos - b['offset']} of {b['size']}")
            elif df:
                acc.violation("capture-values!=layout", f"{PROP}:capture:{name}:{df.split(':')[0].split('[')[0]}", wit, df)
            else:
                acc.outcomes[f"capture:{name}:agrees"] += 1
                acc.n["traces"] += 1
            acc.sample({"capture_block": i, "kind": name, "digest": b["digest"][:16]}, 8)
        e0 = tdf.entries
        for k, r in enumerate(ref["entries"]):
            got = (e0[k].type.value, e0[k].format, e0[k].offset, e0[k].size, _ts(e0[k].creation_date), e0[k].comment)
            exp = (r["type"], r["format"], r["offset"], r["size"], r["ctime"], r["comment"])
            if got != exp:
                acc.violation("capture-table!=layout", f"{PROP}:capture:table", {"capture_entry": k}, f"{got} vs {exp}")
    return acc


def foreign_table_shard(_):
    """Entries the library rewrites but does not own: a file from other software whose unused slots each
    carry their own dates and comment (a slot freed at some time keeps them).  After add / remove /
    replace by the library every unused slot on disk still is a layout-conformant entry with *its own*
    dates and comment, offset = end of data, size 0 - what a layout-driven encoder writes for the table the
    library holds."""
    acc = core.Acc()
    n = specs.lib()
    tmp = env.scratch_dir("c06t")
    path = os.path.join(tmp, "t.tdf")
    BT = n.block.BlockType
    for N in (3, 5, 14):
        for nlive in (0, 1, 2):
            if nlive >= N:
                continue
            recs = [kdriver.known_record(R.T_EVENTS, 0), kdriver.opaque_record(2)][:nlive]
            base = bytearray(R.build_file(N, recs, junk=lambda k: bytes((i * 11 + 0x51) % 255 + 1 for i in range(k))))
            own = {}
            for k in range(nlive, N):   # give every unused slot its own dates and comment
                p0 = R.parse_file(bytes(base))["entries"][k]
                own[k] = (1_300_000_000 + 100 * k, 1_300_000_001 + 100 * k, f"freed slot {k} \xe9")
                base[R.HEADER + R.ENTRY * k: R.HEADER + R.ENTRY * (k + 1)] = R.build_entry(
                    0, 0, p0["offset"], 0, own[k][0], own[k][1], 1_300_000_002 + 100 * k, own[k][2])
            histories = [[("add", R.T_EMG)], [("add", R.T_EMG), ("add", R.T_DATA3D)], [("add", R.T_EMG), ("remove", R.T_EMG)]]
            if nlive:
                histories += [[("replace", R.T_EVENTS)], [("remove", R.T_EVENTS)], [("remove", R.T_EVENTS), ("add", R.T_EVENTS)]]
            for hist in histories:
                if sum(1 for o in hist if o[0] == "add") + nlive > N:
                    continue
                acc.n["states"] += 1
                acc.n["evaluations"] += 1
                acc.n["nontrivial"] += 1
                acc.n["transitions"] += len(hist)
                with open(path, "wb") as f:
                    f.write(bytes(base))
                wit = {"foreign_table": [N, nlive, [list(o) for o in hist]]}
                desc = f"{N} slots, {nlive} live, unused slots with own dates/comments; {[o[0] + ' ' + R.NAMES[o[1]] for o in hist]}"
                try:
                    with n.tdf.Tdf(path).allow_write() as f:
                        for op, t in hist:
                            if op == "add":
                                f.add_block(kdriver.make_block(t, 0))
                            elif op == "remove":
                                f.remove_block(BT(t))
                            else:
                                f.replace_block(kdriver.make_block(t, 1))
                except Exception as e:  # noqa: BLE001
                    acc.violation("valid-op-refused", f"{PROP}:foreign-table:raises:{type(e).__name__}", wit, f"{desc}: {type(e).__name__}: {e}")
                    continue
                data = open(path, "rb").read()
                try:
                    p = R.parse_file(data)
                except R.LayoutError as e:
                    acc.violation("unparsable", f"{PROP}:foreign-table:unparsable", wit, f"{desc}: {e}")
                    continue
                end = max([R.HEADER + R.ENTRY * N] + [e["offset"] + e["size"] for e in p["entries"] if e["type"] != 0])
                unused = [e for e in p["entries"] if e["type"] == 0]
                # the original unused slots keep their order; slots freed by a removal are appended after them
                bad = None
                orig = [own[k] for k in sorted(own)]
                for i, e in enumerate(unused):
                    if e["size"] != 0 or e["offset"] != end:
                        bad = f"unused slot #{i} has offset {e['offset']} size {e['size']} (end of data {end})"
                        break
                got = [(e["ctime"], e["mtime"], e["comment"]) for e in unused]
                if bad is None and hist[0][0] == "remove" and nlive:
                    # everything from the removed slot on has been rewritten by the library: reserved word zero,
                    # nothing after the comment's terminator (the source file carried garbage in both)
                    for i, e in enumerate(p["entries"]):
                        tail = e["comment_raw"][e["comment_raw"].find(b"\0"):] if b"\0" in e["comment_raw"] else b""
                        if e["pad"] != b"\0\0\0\0" or tail.strip(b"\0"):
                            bad = f"entry {i} rewritten by the library carries reserved word {e['pad'].hex()} / {len(tail.strip(bytes(1)))} non-zero bytes after the comment"
                            break
                if bad is None:
                    # every original slot that was not consumed must still be there, unchanged, in order
                    want_tail = [o for o in orig if o in got]
                    pos = [got.index(o) for o in want_tail]
                    nadds = sum(1 for o in hist if o[0] == "add" or o[0] == "replace")
                    expected_min = max(0, len(orig) - nadds)
                    if len(want_tail) < expected_min or pos != sorted(pos):
                        bad = (f"unused slots on disk carry {got[:4]}{'...' if len(got) > 4 else ''}; at least the last {expected_min} of the original "
                               f"slots {orig[-expected_min:][:3] if expected_min else []} must survive with their own dates and comments")
                if bad:
                    acc.violation("foreign-unused-slot-rewritten", f"{PROP}:foreign-table:unused-slot:{hist[-1][0]}", wit, f"{desc}: {bad}")
                else:
                    acc.outcomes["foreign-table:unused-slots-kept"] += 1
                    acc.n["traces"] += 1
    acc.sample({"foreign tables": "3 / 5 / 14 slots, 0-2 live, each unused slot with its own dates and comment; add / remove / replace histories"}, 1)
    return acc


def _shard(shard):
    if shard == "foreign_table":
        return foreign_table_shard(shard)
    if shard == "capture":
        return capture_shard(shard)
    if shard == "container":
        return container_shard(shard)
    if shard == "fullwidth":
        return fullwidth_shard(shard)
    return shape.run_shard(shard, _shard.tier, check_one, PROP)


def run(tier):
    _shard.tier = tier
    acc = core.pmap(__name__, "_shard", ["capture", "container", "fullwidth", "foreign_table"] + shape.shards())
    acc.merge(core.pmap("mc.editwalk", "run_shard", editwalk.shards(PROP, tier)))
    return acc


def replay(w):
    if w.get("editwalk"):
        return editwalk.replay(w)
    if "foreign_table" in w:
        acc = foreign_table_shard(None)
    elif "fullwidth" in w:
        acc = fullwidth_shard(None)
    elif "capture_block" in w or "capture_entry" in w:
        acc = capture_shard(None)
    elif "container" in w:
        acc = container_shard(None)
    else:
        return shape.replay(w, check_one)
    for v in acc.violations:
        if v["witness"] == w:
            return core.Violation(v["clause"], v["sig"], w, v["detail"])
    return None


if __name__ == "__main__":  # regenerate the golden digest (reference decoder only)
    env.setup()
    _, ref, blocks = capture_reference()
    os.makedirs(os.path.dirname(GOLDEN), exist_ok=True)
    json.dump({"file": os.path.basename(env.CAPTURE), "blocks": blocks}, open(GOLDEN, "w"), indent=1)
    print("wrote", GOLDEN)
