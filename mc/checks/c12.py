"""C12 - reserved, padding and after-terminator bytes never influence what is read.

For every valid encoding E (every builder state of gen.family, library-written and reference-
built files, the 8 capture blocks) and the don't-care map R(E) produced by the reference
layout: (1) each region alone x fill in {0x01,0x41,0x81,0xFF}; (2) all regions at once x each
fill and x a byte ramp; (3) for one small block per kind, each single don't-care byte x each
fill.  Oracle: the scrambled bytes decode without exception and re-encode to exactly the
canonical encoding of the unscrambled decode (same size)."""
import os

import numpy as np

from .. import core, env, gen, shape, specs
from .. import tdfref as R

PROP = "C12"
FILLS = (0x01, 0x41, 0x81, 0xFF)
RULE = ("states = (encoding, scrambled don't-care assignment); assignments: each region alone x 4 fills (0x81 is undefined "
        "in cp1252), all regions x 4 fills + ramp, single bytes x 4 fills on one small block per kind; encodings: all "
        "builder states, header/entries of reference-built files, 8 capture blocks; non-trivial = encoding has >= 2 "
        "don't-care regions")
ASSUMPTIONS = [
    "'every assignment of arbitrary values' is bounded to uniform fills per region / per byte and one non-uniform ramp",
    "don't-care map = reference layout: reserved header words, entry pad word, block-header pad words, the 256-byte "
    "pad of platform-calibration records, bytes after the first NUL of every fixed-width string",
]


def scrambles(dc, single_bytes=False):
    """Yield (name, [(start, end, fill or 'ramp')])."""
    for idx, (a, b) in enumerate(dc):
        for f in FILLS:
            yield f"region{idx}", [(a, b, f)]
    if len(dc) > 1:
        for f in FILLS:
            yield "all", [(a, b, f) for a, b in dc]
    if dc:
        yield "ramp", [(a, b, "ramp") for a, b in dc]
    if single_bytes:
        for a, b in dc:
            for pos in range(a, b):
                for f in FILLS:
                    yield "byte", [(pos, pos + 1, f)]


def apply(data, edits):
    out = bytearray(data)
    for a, b, f in edits:
        if f == "ramp":
            out[a:b] = bytes(((i * 37 + 0x81) % 255) + 1 for i in range(b - a))
        else:
            out[a:b] = bytes([f]) * (b - a)
    return bytes(out)


def check_block(sp, opts, acc, tag="", single_bytes=False):
    t, fmt = sp["type"], sp["format"]
    canon, dc = R.encode_block(sp, want_dc=True)
    try:
        base = specs.lib_encode(specs.lib_decode(t, fmt, canon)[0])
    except Exception as e:  # noqa: BLE001
        raise shape.viol(PROP, sp, "canonical-refused", tag, f"{type(e).__name__}: {e}", type(e).__name__)
    if len(base) != len(canon):
        raise shape.viol(PROP, sp, "size", tag, f"re-encoding of canonical bytes has {len(base)} bytes, original {len(canon)}")
    for name, edits in scrambles(dc, single_bytes):
        data = apply(canon, edits)
        acc.n["transitions"] += 1
        acc.n["scrambles"] += 1
        where = _where(t, edits, canon, sp)
        try:
            got = specs.lib_encode(specs.lib_decode(t, fmt, data)[0])
        except Exception as e:  # noqa: BLE001
            raise shape.viol(PROP, sp, "dontcare-byte-breaks-read", tag,
                             f"{name} {edits[0][:2]} fill={edits[0][2]}: {type(e).__name__}: {e}", where)
        if got != base:
            raise shape.viol(PROP, sp, "dontcare-byte-changes-content", tag,
                             f"{name} {edits[0][:2]} fill={edits[0][2]}: re-encoding differs ({len(got)} vs {len(base)} bytes)", where)
    return f"{len(dc)}regions"


def _where(t, edits, canon, sp):
    """Kind of the scrambled region (stable across inputs)."""
    a, b, _ = edits[0]
    if len(edits) > 1:
        return "all"
    return {256: "pad256", 4: "pad4"}.get(b - a, "strtail" if b - a > 1 else "byte")


def check_one(sp, opts, acc, tag=""):
    return check_block(sp, opts, acc, tag, single_bytes=False)


SMALL = {R.T_DATA3D: lambda: gen.data3d(3, [gen.mk_track3d(3, (True, False, True), "ab"), gen.mk_track3d(3, (True, True, True), "c", 2)], links=[(0, 1)]),
         R.T_EMG: lambda: gen.emg(3, [(1, gen.mk_emgsig(3, (True, False, True), "ab")), (0, gen.mk_emgsig(3, (True, True, True), "c", 2))]),
         R.T_FORCE3D: lambda: gen.force3d(3, [gen.mk_ftrack(3, (True, False, True), "ab"), gen.mk_ftrack(3, (True, True, True), "c", 2)]),
         R.T_PLATDATA: lambda: gen.platdata(3, [(1, gen.mk_plat(3, (True, False, True))), (0, gen.mk_plat(3, (True, True, True), 2))]),
         R.T_PLATCAL: lambda: gen.platcal([(1, gen.mk_platinfo("ab"))]),
         R.T_OPT: lambda: gen.optical([gen.mk_chan(1, "l", "t", "n")]),
         R.T_EVENTS: lambda: gen.events([gen.mk_event("ab", 1, 2)]),
         R.T_CALIB: lambda: gen.calib(1, [gen.mk_cam(1, 1)]),
         R.T_DATA2D: lambda: gen.data2d(1, 1, gen.cells_grid(1, 1, (1,)))}


def bytes_shard(t):
    acc = core.Acc()
    sp = SMALL[t]()
    acc.n["states"] += 1
    acc.n["evaluations"] += 1
    acc.n["nontrivial"] += 1
    try:
        out = check_block(sp, {}, acc, "bytes", single_bytes=True)
        acc.outcomes[f"{R.NAMES[t]}:every-single-byte:{out}"] += 1
        acc.n["traces"] += 1
    except core.Violation as v:
        acc.violation(v.clause, v.sig, {"spec": specs.dump(sp), "opts": {}, "tag": "bytes", "single": True}, v.detail)
    acc.sample({"single-byte scramble": gen.spec_label(sp)}, 1)
    return acc


# ----------------------------------------------------------------------------- files
def file_shard(_):
    acc = core.Acc()
    n = specs.lib()
    tmp = env.scratch_dir("c12")
    evs = gen.events([gen.mk_event("e", 1, 2)])
    emg = gen.emg(3, [(1, gen.mk_emgsig(3, (True, False, True), "sig"))])
    for nslots in (2, 3, 14):
        live = [dict(type=16, format=1, payload=R.encode_block(evs), comment="first", ctime=1_500_000_000, mtime=1_500_000_001, atime=1_500_000_002),
                dict(type=11, format=1, payload=R.encode_block(emg), comment="", ctime=1_500_000_003, mtime=1_500_000_004, atime=1_500_000_005)]
        canon = R.build_file(nslots, live)
        p = R.parse_file(canon)
        dc = p["dc"]
        path = os.path.join(tmp, "f.tdf")

        def view(data):
            with open(path, "wb") as f:
                f.write(data)
            with n.tdf.Tdf(path) as tdf:
                ent = [(e.type.value, e.format, e.offset, e.size, e.comment, e.creation_date, e.last_modification_date,
                        e.last_access_date) for e in tdf.entries]
                blocks = [specs.lib_encode(tdf.get_block(i)) for i in range(2)]
                hdr = (tdf.version, tdf.nEntries, tdf.creation_date, tdf.last_modification_date, tdf.last_access_date)
                keep.append(list(tdf.entries))
                return ent, blocks, hdr, len(tdf), tdf.has_events, tdf.has_emg

        keep = []   # the entry objects of every view: they must also compare equal as objects (==, in, index)
        base = view(canon)
        acc.n["states"] += 1
        acc.n["evaluations"] += 1
        acc.n["nontrivial"] += 1
        for name, edits in scrambles(dc, single_bytes=(nslots == 2)):
            acc.n["transitions"] += 1
            acc.n["scrambles"] += 1
            a, b, f = edits[0]
            where = "all" if len(edits) > 1 else ("header-reserved" if a < 64 else ("entry-pad" if (a - 64) % 288 == 28 else "comment-tail"))
            wit = {"file": nslots, "edits": [list(e) for e in edits]}
            try:
                got = view(apply(canon, edits))
            except Exception as e:  # noqa: BLE001
                acc.violation("dontcare-byte-breaks-read", f"{PROP}:file:breaks-read:{where}", wit,
                              f"N={nslots} {name} [{a},{b}) fill={f}: {type(e).__name__}: {e}")
                continue
            if got != base:
                acc.violation("dontcare-byte-changes-content", f"{PROP}:file:changes-content:{where}", wit,
                              f"N={nslots} {name} [{a},{b}) fill={f}")
                continue
            e0, e1 = keep[0], keep[-1]
            del keep[1:]
            try:
                same = len(e0) == len(e1) and all(x == y and not (x != y) for x, y in zip(e0, e1)) and all(y in e0 for y in e1[:2])
            except Exception as e:  # noqa: BLE001
                same = f"{type(e).__name__}: {e}"
            if same is not True:
                acc.violation("dontcare-byte-changes-content", f"{PROP}:file:changes-entry-equality:{where}", wit,
                              f"N={nslots} {name} [{a},{b}) fill={f}: the jump-table entry objects no longer compare equal to those of "
                              f"the canonical file ({same})")
            else:
                acc.outcomes[f"file:N{nslots}:{where}:same"] += 1
                acc.n["traces"] += 1
        acc.sample({"file": f"N={nslots}, 2 live blocks, {len(dc)} don't-care regions"}, 3)
    return acc


def capture_shard(slot):
    acc = core.Acc()
    data = open(env.CAPTURE, "rb").read()
    p = R.parse_file(data)
    e = p["entries"][slot]
    raw = R.payload(data, e)
    sp, used, dc = R.decode_block(e["type"], e["format"], raw)
    name = R.NAMES[e["type"]]
    base = specs.lib_encode(specs.lib_decode(e["type"], e["format"], raw)[0])
    acc.n["states"] += 1
    acc.n["evaluations"] += 1
    acc.n["nontrivial"] += 1
    if len(base) != len(raw):
        acc.violation("size", f"{PROP}:capture:{name}:size", {"capture": slot}, f"re-encoding {len(base)} vs {len(raw)}")
    scr = list(scrambles(dc))
    if len(scr) > 120:  # big blocks: every region alone with the undefined-in-cp1252 fill, all fills at once
        scr = [s for s in scr if s[0] in ("all", "ramp") or s[1][0][2] == 0x81]
        acc.notes.append(f"capture {name}: per-region scrambles limited to fill 0x81")
    for nm, edits in scr:
        acc.n["transitions"] += 1
        acc.n["scrambles"] += 1
        wit = {"capture": slot, "edits": [list(x) for x in edits[:1]], "n_edits": len(edits), "name": nm}
        try:
            got = specs.lib_encode(specs.lib_decode(e["type"], e["format"], apply(raw, edits))[0])
        except Exception as x:  # noqa: BLE001
            acc.violation("dontcare-byte-breaks-read", f"{PROP}:capture:{name}:breaks-read", wit, f"{nm}: {type(x).__name__}: {x}")
            continue
        if got != base:
            acc.violation("dontcare-byte-changes-content", f"{PROP}:capture:{name}:changes-content", wit, nm)
        else:
            acc.outcomes[f"capture:{name}:same"] += 1
            acc.n["traces"] += 1
    acc.sample({"capture_block": slot, "kind": name, "dontcare_regions": len(dc), "scrambles": len(scr)}, 8)
    return acc


def _shard(shard):
    if shard[0] == "bytes":
        return bytes_shard(shard[1])
    if shard[0] == "file":
        return file_shard(None)
    if shard[0] == "capture":
        return capture_shard(shard[1])
    return shape.run_shard(shard, _shard.tier, check_one, PROP)


def run(tier):
    _shard.tier = tier
    data = open(env.CAPTURE, "rb").read()
    slots = [i for i, e in enumerate(R.parse_file(data)["entries"]) if e["type"] != 0]
    shards = [("capture", s) for s in slots] + [("file",)] + [("bytes", t) for t in R.WRITABLE] + shape.shards()
    return core.pmap(__name__, "_shard", shards)


def replay(w):
    acc = core.Acc()
    if "capture" in w:
        acc = capture_shard(w["capture"])
    elif "file" in w:
        acc = file_shard(None)
    else:
        try:
            check_block(specs.load(w["spec"]), w["opts"], acc, w.get("tag", ""), single_bytes=w.get("single", False))
        except core.Violation as v:
            return v
        return None
    for v in acc.violations:
        if v["witness"] == w:
            return core.Violation(v["clause"], v["sig"], w, v["detail"])
    return None
