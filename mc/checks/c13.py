"""C13 - fixed-width text fields: exact width, lossless for valid text, else refused.

Deviation-bounded exhaustive enumeration of strings: base 'aaa...' of every length
0..width+2 with <= 1 (all widths) / <= 2 (small widths) positions replaced by every symbol of
a 258-symbol alphabet (all 251 cp1252 characters incl. NUL, the 5 undefined code points,
U+0100, U+4E2D).  Read side: all 256^w byte strings for w <= 2 and, for wider fields, every
position of the first NUL x every byte value next to it.  Plus boundary labels through every
label-bearing block field and the jump-table comment (following field must stay intact)."""
import itertools

import numpy as np

from .. import core, editwalk, env, gen, specs
from .. import tdfref as R

PROP = "C13"
RULE = ("states = distinct (width, string) / (width, bytes) inputs (+ ordered pairs of calls with the same string and two widths); write side: <=1 deviation from 'a'*L over a "
        "258-symbol alphabet for widths {1,2,3,4,8,32,256} and <=2 deviations for widths <=3 (thorough <=4); read side: "
        "all 256^w strings w<=2 + first-NUL position x neighbouring byte for w in {4,32,256}; non-trivial = input "
        "contains a non-ASCII symbol, a NUL, or has length >= width-1")
ASSUMPTIONS = [
    "own cp1252 table (27 C1 mappings, 5 undefined bytes) is the reference, not Python's codec",
    "embedded NUL is outside the lossless domain: only 'exactly width bytes or ValueError' is asserted for it",
    "bytes whose *content* (before the first NUL) holds an undefined cp1252 byte: no expectation on read",
    "widths 32/256 quick: lengths {0,1,2,w-2..w+2} with every single deviation; thorough: every length",
]
SYMBOLS = [R.BYTE2CHAR[b] for b in sorted(R.BYTE2CHAR)] + [chr(b) for b in R.CP1252_UNDEFINED] + ["Ā", "中"]
WIDTHS = (1, 2, 3, 4, 8, 32, 256)


def expect_write(width, s):
    """-> ('bytes', b) | ('refuse',) | ('nul',)"""
    e = R.cp_encode(s)
    if e is None:
        return ("refuse",)
    if len(e) >= width:
        return ("refuse",)
    if "\0" in s:
        return ("nul",)
    return ("bytes", e + b"\0" * (width - len(e)))


def check_write(BTS, width, s, acc):
    exp = expect_write(width, s)
    try:
        got = BTS.write(width, s)
        err = None
    except Exception as e:  # noqa: BLE001
        got, err = None, e
    acc.n["transitions"] += 1
    desc = f"width {width}, string of {len(s)} chars {s[:12]!r}{'...' if len(s) > 12 else ''}"
    kind = "long" if len(s) >= width else ("nul" if "\0" in s else ("nonascii" if any(ord(c) > 127 for c in s) else "plain"))
    if exp[0] == "refuse":
        if err is None:
            raise core.Violation("unstorable-accepted", f"{PROP}:write:unstorable-accepted:w{width}:{kind}", None,
                                 f"{desc}: returned {len(got)} bytes instead of raising ValueError")
        if not isinstance(err, ValueError):
            raise core.Violation("wrong-exception", f"{PROP}:write:wrong-exception:w{width}:{type(err).__name__}", None,
                                 f"{desc}: raised {type(err).__name__}, expected ValueError")
        return "refused"
    if exp[0] == "nul":
        if err is not None:
            if isinstance(err, ValueError):
                return "nul-refused"
            raise core.Violation("wrong-exception", f"{PROP}:write:wrong-exception:w{width}:{type(err).__name__}", None, desc)
        if len(got) != width:
            raise core.Violation("width", f"{PROP}:write:width:w{width}:nul", None, f"{desc}: wrote {len(got)} bytes")
        return "nul-written"
    if err is not None:
        raise core.Violation("valid-text-refused", f"{PROP}:write:valid-text-refused:w{width}:{kind}", None,
                             f"{desc}: {type(err).__name__}: {err}")
    if len(got) != width:
        raise core.Violation("width", f"{PROP}:write:width:w{width}:{kind}", None, f"{desc}: wrote {len(got)} bytes")
    if bytes(got) != exp[1]:
        raise core.Violation("bytes", f"{PROP}:write:bytes:w{width}:{kind}", None,
                             f"{desc}: wrote {bytes(got)[:16].hex()}.. expected {exp[1][:16].hex()}..")
    try:
        back = BTS.read(width, bytes(got))
    except Exception as e:  # noqa: BLE001
        raise core.Violation("readback-raises", f"{PROP}:write:readback-raises:w{width}:{kind}", None, f"{desc}: {type(e).__name__}")
    acc.n["transitions"] += 1
    if back != s:
        raise core.Violation("lossy", f"{PROP}:write:lossy:w{width}:{kind}", None, f"{desc}: read back {back[:12]!r}")
    # the stream forms (what blocks and the jump table use): same bytes, same text, position exactly after the field
    import io

    buf = io.BytesIO()
    buf.write(b"<")
    try:
        BTS.bwrite(buf, width, s)
        buf.write(b">")
        raw = buf.getvalue()
        stream = io.BytesIO(raw)
        stream.read(1)
        back2 = BTS.bread(stream, width)
        at = stream.tell()
    except Exception as e:  # noqa: BLE001
        raise core.Violation("stream-form-raises", f"{PROP}:write:stream-raises:w{width}:{kind}", None, f"{desc}: {type(e).__name__}: {e}")
    acc.n["transitions"] += 2
    if raw != b"<" + exp[1] + b">":
        raise core.Violation("bytes", f"{PROP}:write:stream-bytes:w{width}:{kind}", None, f"{desc}: bwrite wrote {len(raw) - 2} bytes / other bytes than write")
    if back2 != s or at != 1 + width:
        raise core.Violation("lossy", f"{PROP}:write:stream-lossy:w{width}:{kind}", None, f"{desc}: bread returned {back2[:12]!r}, stream at {at}")
    return "stored"


def check_read(BTS, width, raw, acc):
    content = R.field_text(raw)
    want = R.cp_decode(content)
    acc.n["transitions"] += 1
    try:
        got = BTS.read(width, raw)
    except Exception as e:  # noqa: BLE001
        if want is None:
            return "undefined-byte"
        raise core.Violation("conformant-field-refused", f"{PROP}:read:refused:w{width}:{type(e).__name__}", None,
                             f"width {width} bytes {raw[:12].hex()}: {type(e).__name__}: {e}")
    if want is None:
        return "undefined-byte-read"
    if got != want:
        tail = "tail" if len(content) < width - 1 and any(raw[len(content) + 1:]) else "content"
        raise core.Violation("read-differs", f"{PROP}:read:differs:w{width}:{tail}", None,
                             f"width {width} bytes {raw[:12].hex()}..: read {got[:12]!r}, content is {want[:12]!r}")
    import io

    stream = io.BytesIO(raw + b">")
    try:
        got2 = BTS.bread(stream, width)
    except Exception as e:  # noqa: BLE001
        raise core.Violation("conformant-field-refused", f"{PROP}:read:stream-refused:w{width}:{type(e).__name__}", None,
                             f"width {width} bytes {raw[:12].hex()}: bread: {type(e).__name__}: {e}")
    acc.n["transitions"] += 1
    if got2 != want or stream.tell() != width:
        raise core.Violation("read-differs", f"{PROP}:read:stream-differs:w{width}", None,
                             f"width {width} bytes {raw[:12].hex()}..: bread returned {got2[:12]!r} (stream at {stream.tell()}), content is {want[:12]!r}")
    return "read"


def write_inputs(width, tier):
    thorough = tier == "thorough"
    if width <= 8 or (thorough and width <= 32):
        lengths = range(0, width + 3)
    elif thorough:
        lengths = range(0, width + 3)
    else:
        lengths = sorted({0, 1, 2, width - 2, width - 1, width, width + 1, width + 2})
    for L in lengths:
        base = ["a"] * L
        yield "".join(base)
        for pos in range(L):
            for sym in SYMBOLS:
                s = list(base)
                s[pos] = sym
                yield "".join(s)
        if width <= (4 if thorough else 3):
            for p1, p2 in itertools.combinations(range(L), 2):
                for s1 in SYMBOLS:
                    for s2 in SYMBOLS:
                        s = list(base)
                        s[p1], s[p2] = s1, s2
                        yield "".join(s)


def read_inputs(width):
    if width <= 2:
        for t in itertools.product(range(256), repeat=width):
            yield bytes(t)
        return
    for nulpos in range(width + 1):  # width = no NUL at all
        base = bytearray(b"a" * width)
        if nulpos < width:
            base[nulpos] = 0
            for k in range(nulpos + 1, width):
                base[k] = 0x62
        yield bytes(base)
        for pos in sorted({nulpos - 1, nulpos + 1, 0, width - 1}):
            if 0 <= pos < width and pos != nulpos:
                for b in range(256):
                    x = bytearray(base)
                    x[pos] = b
                    yield bytes(x)


def _nontrivial_s(width, s):
    return len(s) >= width - 1 or any(ord(c) > 127 or c == "\0" for c in s)


def _shard(shard):
    kind, width, i, k = shard
    acc = core.Acc()
    BTS = specs.lib().types.BTSString
    if kind == "write":
        for idx, s in enumerate(write_inputs(width, _shard.tier)):
            if idx % k != i:
                continue
            acc.n["states"] += 1
            acc.n["evaluations"] += 1
            if _nontrivial_s(width, s):
                acc.n["nontrivial"] += 1
            try:
                out = check_write(BTS, width, s, acc)
                acc.outcomes[f"write:w{width}:{out}"] += 1
                acc.n["traces"] += 1
            except core.Violation as v:
                acc.violation(v.clause, v.sig, {"kind": "write", "width": width, "s": [ord(c) for c in s]}, v.detail)
        acc.sample({"write": f"width {width}: 'a'*L with every symbol at every position, L in 0..{width + 2}"}, 1)
    elif kind == "read":
        for idx, raw in enumerate(read_inputs(width)):
            if idx % k != i:
                continue
            acc.n["states"] += 1
            acc.n["evaluations"] += 1
            if any(b > 127 or b == 0 for b in raw):
                acc.n["nontrivial"] += 1
            try:
                out = check_read(BTS, width, raw, acc)
                acc.outcomes[f"read:w{width}:{out}"] += 1
                acc.n["traces"] += 1
            except core.Violation as v:
                acc.violation(v.clause, v.sig, {"kind": "read", "width": width, "raw": raw.hex()}, v.detail)
        acc.sample({"read": f"width {width}: {'all byte strings' if width <= 2 else 'first-NUL position x neighbour byte'}"}, 1)
    elif kind == "pairs":
        return pairs_shard(acc)
    else:
        return fields_shard(acc)
    return acc


def pairs_shard(acc):
    """Two calls in a row with the SAME string: the second call must be judged on its own width
    (state kept between calls - a cache keyed on the text - must not leak the first width)."""
    BTS = specs.lib().types.BTSString
    for w1 in WIDTHS:
        for w2 in WIDTHS:
            for L in sorted({0, 1, w2 - 2, w2 - 1, w2, w2 + 1, w1 - 1, w1, (w1 + w2) // 2}):
                if L < 0 or L > 300:
                    continue
                for tail in ("", "\xe9", "\u20ac", "\u0100"):
                    if L == 0:
                        continue
                    # a text no earlier call of this process has seen (the pair is the whole history
                    # of that text): its first characters name the pair of widths
                    tagc = "ABCDEFGHIJKLMNOPQRSTUVWXYZabcdefghijklmnopqrstuvwxyz"[WIDTHS.index(w1) * len(WIDTHS) + WIDTHS.index(w2)]
                    s = (tagc + ("" if not tail else "t") + "b" * L)[:L]
                    if tail:
                        if L < 2:
                            continue
                        s = s[:-1] + tail
                    acc.n["states"] += 1
                    acc.n["evaluations"] += 1
                    acc.n["nontrivial"] += 1
                    try:
                        first = BTS.write(w1, s)
                        if isinstance(first, (bytes, bytearray)) and len(first) == w1:
                            try:
                                BTS.read(w1, bytes(first))
                            except Exception:  # noqa: BLE001
                                pass
                    except Exception:  # noqa: BLE001
                        pass
                    acc.n["transitions"] += 1
                    try:
                        out = check_write(BTS, w2, s, acc)
                        acc.outcomes[f"pair:w{w1}->w{w2}:{out}"] += 1
                        acc.n["traces"] += 1
                    except core.Violation as v:
                        acc.violation(v.clause, v.sig + ":after-other-width", {"kind": "pair", "w1": w1, "width": w2, "s": [ord(c) for c in s]},
                                      f"after write({w1}, same string): {v.detail}")
    acc.sample({"pairs": "write(w1, s) then write(w2, s) for every ordered pair of widths, lengths around both boundaries"}, 1)
    return acc


# ----------------------------------------------------------------------------- through blocks and the table
def _field_cases():
    """(name, width, make(spec_label) -> spec, label path) for every label-bearing field."""
    g = gen
    yield "data3D.track", 256, lambda s: g.data3d(2, [g.mk_track3d(2, (True, True), s), g.mk_track3d(2, (True, False), "next", 3)])
    yield "emg.signal", 256, lambda s: g.emg(2, [(0, g.mk_emgsig(2, (True, True), s)), (1, g.mk_emgsig(2, (True, True), "next", 3))])
    yield "force3D.track", 256, lambda s: g.force3d(2, [g.mk_ftrack(2, (True, True), s), g.mk_ftrack(2, (True, True), "next", 3)])
    yield "platCal.label", 256, lambda s: g.platcal([(0, g.mk_platinfo(s)), (1, g.mk_platinfo("next", 2))])
    yield "events.label", 256, lambda s: g.events([g.mk_event(s, 1, 2), g.mk_event("next", 0, 1, 4)])
    yield "optical.lens", 32, lambda s: g.optical([g.mk_chan(0, lens=s), g.mk_chan(1)])
    yield "optical.type", 32, lambda s: g.optical([g.mk_chan(0, ctype=s), g.mk_chan(1)])
    yield "optical.name", 32, lambda s: g.optical([g.mk_chan(0, name=s), g.mk_chan(1)])


def fields_shard(acc):
    import os

    n = specs.lib()
    for name, width, make in _field_cases():
        for text_kind, mk in (("ascii", lambda L: "q" * L), ("latin", lambda L: ("\xe9€" * L)[:L])):
            for L in (0, 1, width - 2, width - 1, width, width + 1):
                s = mk(L)
                for tail in ("", "Ā", "中"):
                    if tail and L == 0:
                        continue
                    s2 = (s[:-1] + tail) if tail else s
                    sp = make(s2)
                    acc.n["states"] += 1
                    acc.n["evaluations"] += 1
                    acc.n["nontrivial"] += 1
                    storable = R.cp_encode(s2) is not None and len(R.cp_encode(s2)) < width
                    wit = {"kind": "field", "field": name, "s": [ord(c) for c in s2]}
                    try:
                        obj = specs.build(sp)
                        data = specs.lib_encode(obj)
                        err = None
                    except Exception as e:  # noqa: BLE001
                        data, err = None, e
                    acc.n["transitions"] += 1
                    desc = f"{name} ({width} bytes) <- {len(s2)} chars ({text_kind}{'+' + hex(ord(tail)) if tail else ''})"
                    if not storable:
                        if err is None:
                            acc.violation("unstorable-accepted", f"{PROP}:field:unstorable-accepted:{name}", wit,
                                          f"{desc}: encoded to {len(data)} bytes instead of ValueError")
                        elif not isinstance(err, ValueError):
                            acc.violation("wrong-exception", f"{PROP}:field:wrong-exception:{name}:{type(err).__name__}", wit,
                                          f"{desc}: {type(err).__name__}: {err}")
                        else:
                            acc.outcomes["field:refused"] += 1
                            acc.n["traces"] += 1
                        continue
                    if err is not None:
                        acc.violation("valid-text-refused", f"{PROP}:field:valid-text-refused:{name}", wit,
                                      f"{desc}: {type(err).__name__}: {err}")
                        continue
                    if len(data) != len(R.encode_block(sp)):
                        acc.violation("field-spills", f"{PROP}:field:spills:{name}", wit,
                                      f"{desc}: block has {len(data)} bytes, layout says {len(R.encode_block(sp))}")
                        continue
                    try:
                        back = specs.extract(specs.lib_decode(sp["type"], sp["format"], data)[0])
                        df = specs.diff(sp, back)
                    except Exception as e:  # noqa: BLE001
                        df = f"decode raised {type(e).__name__}: {e}"
                    if df:
                        acc.violation("field-lossy-or-next-field-damaged", f"{PROP}:field:lossy:{name}", wit, f"{desc}: {df}")
                    else:
                        acc.outcomes["field:stored"] += 1
                        acc.n["traces"] += 1
    # a label changed AFTER the block has been written once: the next write must follow the new text
    for name, width, make in _field_cases():
        for newlen, storable in ((width - 1, True), (width, False), (width + 40, False), (3, True)):
            acc.n["states"] += 1
            acc.n["evaluations"] += 1
            acc.n["nontrivial"] += 1
            sp = make("first")
            wit = {"kind": "rename", "field": name, "newlen": newlen}
            try:
                obj = specs.build(sp)
                first = specs.lib_encode(obj)
                obj.nBytes
                it = [x for x in editwalk.lib_items(obj, sp["type"])][0]
                attr = {"optical.lens": "lens_name", "optical.type": "camera_type", "optical.name": "camera_name"}.get(name, "label")
                setattr(it, attr, "r" * newlen)
                acc.n["transitions"] += 2
                try:
                    second = specs.lib_encode(obj)
                    err = None
                except Exception as e:  # noqa: BLE001
                    second, err = None, e
            except Exception as e:  # noqa: BLE001
                acc.violation("valid-text-refused", f"{PROP}:field:rename-setup:{name}", wit, f"{type(e).__name__}: {e}")
                continue
            desc = f"{name} renamed to {newlen} chars after the block had been written once"
            if not storable:
                if err is None:
                    acc.violation("unstorable-accepted", f"{PROP}:field:unstorable-accepted-after-rename:{name}", wit,
                                  f"{desc}: written ({len(second)} bytes) instead of ValueError")
                elif not isinstance(err, ValueError):
                    acc.violation("wrong-exception", f"{PROP}:field:wrong-exception:{name}:{type(err).__name__}", wit, desc)
                else:
                    acc.outcomes["rename:refused"] += 1
                    acc.n["traces"] += 1
            elif err is not None:
                acc.violation("valid-text-refused", f"{PROP}:field:valid-text-refused-after-rename:{name}", wit, f"{desc}: {type(err).__name__}: {err}")
            else:
                key = {"optical.lens": "lens", "optical.type": "ctype", "optical.name": "name"}.get(name, "label")
                want = make("first")
                spec_it = editwalk.spec_items(want)[0]
                spec_it[key] = "r" * newlen
                if second != R.encode_block(want):
                    acc.violation("field-lossy-or-next-field-damaged", f"{PROP}:field:stale-text-after-rename:{name}", wit,
                                  f"{desc}: the bytes do not carry the new text")
                else:
                    acc.outcomes["rename:stored"] += 1
                    acc.n["traces"] += 1
    # the jump-table comment
    tmp = env.scratch_dir("c13")
    for via, L in [(v, L) for v in ("add", "replace") for L in (0, 1, 254, 255, 256, 257)]:
        for text_kind, mk in (("ascii", lambda L: "q" * L), ("latin", lambda L: ("\xe9€" * L)[:L]), ("foreign", lambda L: ("q" * L)[:-1] + "Ā" if L else ""),
                              ("blanks", lambda L: (" " * L) if L < 3 else " " + "q" * (L - 3) + "\t ")):
            s = mk(L)
            if text_kind == "foreign" and L == 0:
                continue
            acc.n["states"] += 1
            acc.n["evaluations"] += 1
            acc.n["nontrivial"] += 1
            path = os.path.join(tmp, "c.tdf")
            if os.path.exists(path):
                os.unlink(path)
            storable = R.cp_encode(s) is not None and len(R.cp_encode(s)) < 256
            wit = {"kind": "comment", "s": [ord(c) for c in s], "via": via}
            err = None
            try:
                with n.tdf.Tdf.new(path).allow_write() as f:
                    if via == "add":
                        f.add_block(specs.build(gen.events([gen.mk_event("e", 1, 2)])), s)
                    else:  # the field already holds another text
                        f.add_block(specs.build(gen.events([gen.mk_event("e", 1, 2)])), "the comment that was there before")
                        f.replace_block(specs.build(gen.events([gen.mk_event("e", 1, 2)])), s)
            except Exception as e:  # noqa: BLE001
                err = e
            acc.n["transitions"] += 1
            desc = f"entry comment <- {len(s)} chars ({text_kind}) through {via}_block"
            if not storable:
                if err is None:
                    acc.violation("unstorable-accepted", f"{PROP}:field:unstorable-accepted:comment", wit, desc)
                elif not isinstance(err, ValueError):
                    acc.violation("wrong-exception", f"{PROP}:field:wrong-exception:comment:{type(err).__name__}", wit,
                                  f"{desc}: {type(err).__name__}")
                else:
                    acc.outcomes["comment:refused"] += 1
                    acc.n["traces"] += 1
                continue
            if err is not None:
                acc.violation("valid-text-refused", f"{PROP}:field:valid-text-refused:comment", wit, f"{desc}: {type(err).__name__}: {err}")
                continue
            p = R.parse_file(open(path, "rb").read())
            e0, e1 = p["entries"][0], p["entries"][1]
            if e0["comment"] != s or e0["comment_raw"] != R.cp_encode(s) + b"\0" * (256 - len(R.cp_encode(s))) or e1["type"] != 0 \
                    or e1["offset"] != e0["offset"] + e0["size"]:
                acc.violation("comment-lossy-or-next-entry-damaged", f"{PROP}:field:lossy:comment", wit, desc)
            else:
                acc.outcomes["comment:stored"] += 1
                acc.n["traces"] += 1
    acc.sample({"fields": [c[0] for c in _field_cases()] + ["entry comment"], "lengths": "0,1,w-2,w-1,w,w+1"}, 1)
    return acc


def run(tier):
    _shard.tier = tier
    shards = [("fields", 0, 0, 1), ("pairs", 0, 0, 1)]
    for w in WIDTHS:
        k = 16 if w <= 4 or w == 256 else 4
        shards += [("write", w, i, k) for i in range(k)]
        shards += [("read", w, i, 2) for i in range(2)]
    return core.pmap(__name__, "_shard", shards)


def replay(w):
    BTS = specs.lib().types.BTSString
    acc = core.Acc()
    try:
        if w["kind"] == "pair":
            s0 = "".join(chr(c) for c in w["s"])
            try:
                BTS.write(w["w1"], s0)
            except Exception:  # noqa: BLE001
                pass
            check_write(BTS, w["width"], s0, acc)
        elif w["kind"] == "write":
            check_write(BTS, w["width"], "".join(chr(c) for c in w["s"]), acc)
        elif w["kind"] == "read":
            check_read(BTS, w["width"], bytes.fromhex(w["raw"]), acc)
        else:
            fields_shard(acc)
            for v in acc.violations:
                if v["witness"] == w:
                    return core.Violation(v["clause"], v["sig"], w, v["detail"])
    except core.Violation as v:
        return v
    return None
