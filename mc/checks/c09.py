"""C09 - the file stays compact: no holes, no leaked bytes, free slots point at EOF.

State-space exploration of the real container (driver K): BFS to the fixpoint over
add / remove (by type, by instance) / replace / setter / reopen for every configuration;
after every successful operation the file is parsed by the independent reader."""
from .. import core, kdriver
from .. import tdfref as R
from . import kcommon

PROP = "C09"
RULE = ("states = distinct canonical (file bytes + in-memory table) states reached by BFS to the fixpoint per "
        "configuration (slots N, initial file, 2-5 block kinds x 1-3 size variants); every valid op applied in every "
        "state; non-trivial = states with >= 2 live blocks")
ASSUMPTIONS = [
    "table lengths N in {1,2,3,14} (quick) / {1..5,14} (thorough); payload alphabets fixed per configuration",
    "initial files are compact (the property's precondition), written by the reference encoder or by Tdf.new",
    "only operations a correct implementation accepts are applied (invalid ones belong to C07/C11)",
]


def compact_violation(data, nslots):
    """-> (clause, detail) or None"""
    try:
        p = R.parse_file(data)
    except R.LayoutError as e:
        return "unparsable", str(e)
    ent = p["entries"]
    base = R.HEADER + R.ENTRY * p["n"]
    live = [e for e in ent if e["type"] != 0]
    seen_unused = False
    for i, e in enumerate(ent):
        if e["type"] == 0:
            seen_unused = True
        elif seen_unused:
            return "live-after-unused", f"slot {i} is live after an unused slot"
    off = base
    for i, e in enumerate(live):
        if e["offset"] != off:
            return "not-back-to-back", f"live slot {i} at {e['offset']}, expected {off}"
        off += e["size"]
    for i, e in enumerate(ent):
        if e["type"] == 0 and e["offset"] != off:
            return "free-slot-offset", f"unused slot {i} carries offset {e['offset']}, end of data is {off}"
        if e["type"] == 0 and e["size"] != 0:
            return "free-slot-size", f"unused slot {i} has size {e['size']}"
    if len(data) != off:
        return "file-length", f"file has {len(data)} bytes, header+table+blocks = {off}"
    return None


def observe(sess, hist, op, exc, valid, reason, pre, acc):
    if exc is not None:
        return
    cfg = sess.cfg
    try:
        data = sess.disk()
    except kdriver.FileTooBig as e:
        raise core.Violation("file-length", kcommon.sig(PROP, "file-length", op, cfg), None,
                             f"after {[kdriver.op_str(o) for o in hist]}: {e}")
    bad = compact_violation(data, cfg.n)
    if bad:
        raise core.Violation(bad[0], kcommon.sig(PROP, bad[0], op, cfg), None,
                             f"after {[kdriver.op_str(o) for o in hist]}: {bad[1]}")
    if op and pre and op[0] in ("add", "remove"):
        before = R.parse_file(pre["disk"])
        t = op[1]
        if op[0] == "add":
            want = len(kdriver.variant(t, op[2])[1])
            if len(data) - len(pre["disk"]) != want:
                raise core.Violation("grow!=size", kcommon.sig(PROP, "grow!=size", op, cfg), None,
                                     f"add of {want} bytes grew the file by {len(data) - len(pre['disk'])}")
        else:
            sizes = [e["size"] for e in before["entries"] if e["type"] == t]
            if sizes and len(pre["disk"]) - len(data) != sizes[0]:
                raise core.Violation("shrink!=size", kcommon.sig(PROP, "shrink!=size", op, cfg), None,
                                     f"remove of {sizes[0]} bytes shrank the file by {len(pre['disk']) - len(data)}")


observe.wants_big_files = True
_shard = kcommon.make_run(__name__, "observe", extra_ops=kcommon.long_comment_ops)


_chain = kcommon.make_chain_run(__name__, "observe", extra_ops=kcommon.long_comment_ops, faults=True)


def run(tier):
    acc = kcommon.run_configs(__name__, tier)
    # straight-line histories in ONE context on ONE object (in-memory table state that a restore from
    # file bytes cannot carry, e.g. aliased entries), incl. tables that keep >= 2 unused slots
    acc.merge(core.pmap(__name__, "_chain", [c.to_witness() for c in kcommon.chain_configs(tier, deep=True)]))
    return acc


def replay(w):
    return kcommon.replay_any(w, observe)
