"""C10 - the open object, the file on disk and a reopened file always agree.

Same exploration as C03, observed after each individual operation while the write context is
still open: (a) tdf.entries, (b) the independent parse of the file opened by path at that
instant (a second descriptor: unflushed data is invisible to it), (c) the parse after leaving
the context, (d) a fresh Tdf(path); plus nBytes vs. the file system and get_block(i) vs. the
bytes on disk."""
import os

from .. import core, editwalk, env, kdriver, specs
from .. import tdfref as R
from . import kcommon

PROP = "C10"
RULE = ("[plus every sequence of 1-3 removals on 6 files with an unused slot between live blocks] " +"states as in C03; per transition four observers of the jump table are compared (open object / disk now / "
        "disk after close / fresh object) on type, format, offset, size, comment and the three dates to the second, "
        "plus nBytes and block reads; in addition every straight-line history up to depth 3 is run in ONE context "
        "with reads in between; non-trivial = states with >= 2 live blocks")
ASSUMPTIONS = [
    "state restore as in C03 (states whose memory and disk tables differ are reported here, and expanded by replay)",
    "last-access dates are compared between observers, never against an expected value (they derive from now())",
]


def _cmp(a, b, na, nb, op, cfg, where):
    if len(a) != len(b):
        raise core.Violation("table-length", kcommon.sig(PROP, "table-length", op, cfg, f"{na}-vs-{nb}"), None,
                             f"{where}: {na} has {len(a)} entries, {nb} has {len(b)}")
    names = ("type", "format", "offset", "size", "comment", "creation date", "modification date", "access date")
    for i, (x, y) in enumerate(zip(a, b)):
        for k, (u, v) in enumerate(zip(x, y)):
            if u != v:
                raise core.Violation("observers-disagree", kcommon.sig(PROP, "observers-disagree", op, cfg, f"{na}-vs-{nb}:{names[k].split()[0]}"),
                                     None, f"{where}: slot {i} {names[k]}: {na}={u!r:.50} {nb}={v!r:.50}")


def observe(sess, hist, op, exc, valid, reason, pre, acc):
    from .. import env as _env

    try:
        with _env.time_limit(5):
            return _observe(sess, hist, op, exc, valid, reason, pre, acc)
    except _env.LibraryCallTimeout as e:
        raise core.Violation("read-does-not-return", kcommon.sig(PROP, "read-does-not-return", op, sess.cfg), None,
                             f"after {len(hist)} calls: {e} (blocks in this exploration are small)")


def _observe(sess, hist, op, exc, valid, reason, pre, acc):
    cfg = sess.cfg
    where = f"after {[kdriver.op_str(o) for o in hist]}"
    tdf = sess.tdf
    if exc is not None:
        # a call that raised has also "returned": nothing may have been updated in memory only
        if op is not None and op[0] == "bad":
            try:
                mem = sess.mem_entries()
                d_now = kdriver.disk_entries(R.parse_file(sess.disk()))
            except Exception as x:  # noqa: BLE001
                raise core.Violation("table-unreadable", kcommon.sig(PROP, "table-unreadable", ("rejected",), cfg), None, f"{where}: {x}")
            _cmp([m[:7] for m in mem], [d[:7] for d in d_now], "open-object", "disk-now", ("rejected-" + op[1],), cfg, where)
        return
    mem = sess.mem_entries()
    now = sess.disk()
    try:
        p_now = R.parse_file(now)
    except R.LayoutError as e:
        raise core.Violation("unparsable", kcommon.sig(PROP, "unparsable", op, cfg), None, f"{where}: {e}")
    d_now = kdriver.disk_entries(p_now)
    _cmp(mem, d_now, "open-object", "disk-now", op, cfg, where)
    # size
    st = os.stat(sess.path).st_size
    if tdf.nBytes != st or st != len(now):
        raise core.Violation("nBytes", kcommon.sig(PROP, "nBytes", op, cfg), None,
                             f"{where}: nBytes {tdf.nBytes}, stat {st}, read {len(now)}")
    # block reads through the open object vs. the bytes on disk right now
    for i, e in enumerate(p_now["entries"]):
        if e["type"] in R.WRITABLE:
            try:
                got = specs.lib_encode(tdf.get_block(i))
                want = specs.lib_encode(specs.lib_decode(e["type"], e["format"], R.payload(now, e))[0])
            except Exception as x:  # noqa: BLE001
                raise core.Violation("read-raises", kcommon.sig(PROP, "read-raises", op, cfg, type(x).__name__), None,
                                     f"{where}: reading slot {i}: {type(x).__name__}: {x}")
            if got != want:
                raise core.Violation("read!=disk", kcommon.sig(PROP, "read!=disk", op, cfg), None,
                                     f"{where}: get_block({i}) differs from decoding the bytes stored on disk")
            # the object handed out is the caller's: editing it must not change what the next read returns
            try:
                first = tdf.get_block(i)
                if editwalk.scribble(first):
                    again = specs.lib_encode(tdf.get_block(i))
                    if again != want:
                        raise core.Violation("read-returns-unwritten-edit", kcommon.sig(PROP, "read-returns-unwritten-edit", op, cfg), None,
                                             f"{where}: a block obtained from get_block({i}) was edited in place (never written); the "
                                             f"next get_block({i}) returns the edit instead of what is stored on disk")
            except core.Violation:
                raise
            except Exception as x:  # noqa: BLE001
                raise core.Violation("read-raises", kcommon.sig(PROP, "read-raises", op, cfg, type(x).__name__), None,
                                     f"{where}: second read of slot {i}: {type(x).__name__}: {x}")
    # after close, and through a fresh object
    sess.leave()
    after = sess.disk()
    if after != now:
        raise core.Violation("pending-at-close", kcommon.sig(PROP, "pending-at-close", op, cfg), None,
                             f"{where}: closing the context changed the file ({len(now)} -> {len(after)} bytes)")
    fresh = specs.lib().tdf.Tdf(sess.path)
    with fresh as f2:
        d_fresh = [(e.type.value, int(e.format), int(e.offset), int(e.size), e.comment, kdriver.ts_floor(e.creation_date),
                    kdriver.ts_floor(e.last_modification_date), kdriver.ts_floor(e.last_access_date)) for e in f2.entries]
    _cmp(d_now, d_fresh, "disk-now", "reopened", op, cfg, where)
    sess.enter()
    mem2 = sess.mem_entries()
    _cmp(mem2, d_now, "re-entered-object", "disk-now", op, cfg, where)


_shard = kcommon.make_run(__name__, "observe")


def _late_faults_unused(cfg, model):
    """Requests that are refused only after the block / entry has been looked at (the ones a
    memory-only table update would survive)."""
    out = []
    full = len(model.live) >= model.n
    for t in cfg.types:
        if t not in model.live and not full:
            out.append(("bad", "add", t, "comment_long", 0))
        elif t in model.live:
            out.append(("bad", "replace", t, "comment_noncp", 0))
    return out


def _chain_shard(cfg_w):
    from . import c07

    cfg = kdriver.Config.from_witness(cfg_w)
    acc = core.Acc()
    kdriver.explore_chains(cfg, observe, acc, depth=3, fault_call=c07.call_fault, fault_ops=kcommon.late_faults)
    return acc


def _judge_holes(ctx):
    """Open object == file at that instant == file as a fresh object sees it."""
    p = ctx["parsed"]
    if p is None:
        return [("unparsable", "file no longer parses")]
    mem = [(e.type.value, int(e.format), int(e.offset), int(e.size), e.comment, kdriver.ts_floor(e.creation_date),
            kdriver.ts_floor(e.last_modification_date)) for e in ctx["tdf"].entries]
    disk = [(e["type"], e["format"], e["offset"], e["size"], e["comment"], e["ctime"], e["mtime"]) for e in p["entries"]]
    if len(mem) != len(disk):
        return [("table-length", f"object holds {len(mem)} entries, file {len(disk)}")]
    for i, (m, d) in enumerate(zip(mem, disk)):
        if (m[:4] != d[:4]) if d[0] == 0 else (m != d):
            return [("memory-table!=disk", f"slot {i}: object {m} file {d}")]
    with specs.lib().tdf.Tdf(ctx["path"]) as f2:
        fresh = [(e.type.value, int(e.format), int(e.offset), int(e.size)) for e in f2.entries]
    if fresh != [d[:4] for d in disk]:
        return [("reopened!=disk", "a fresh object reads another table than the independent parser")]
    # reading through the open object, slot by slot and kind by kind, gives what the bytes on disk hold
    BT = specs.lib().block.BlockType
    for i, e in enumerate(p["entries"]):
        if e["type"] not in R.WRITABLE:
            continue
        for how, key in (("slot index", i), ("kind", BT(e["type"]))):
            try:
                back = specs.lib_encode(ctx["tdf"].get_block(key))
            except Exception as x:  # noqa: BLE001
                return [("read-raises", f"get_block by {how} for the {R.NAMES[e['type']]} block in slot {i}: {type(x).__name__}: {x}")]
            if back != R.payload(ctx["data"], e):
                return [("read!=disk", f"get_block by {how} for slot {i} returns content that differs from the bytes on disk")]
    return []


def _holes(_):
    return kcommon.hole_removal_shard(PROP, _judge_holes)


def run(tier):
    acc = kcommon.run_configs(__name__, tier)
    acc.merge(core.pmap(__name__, "_holes", [0]))
    small = kcommon.chain_configs(tier, deep=True)
    acc.merge(core.pmap(__name__, "_chain_shard", [c.to_witness() for c in small]))
    return acc


def replay(w):
    if w.get("holes"):
        return kcommon.hole_replay(w, PROP, _judge_holes)
    if w.get("chain"):
        from . import c07

        return kdriver.replay_chain(w, observe, c07.call_fault)
    return kcommon.replay(w, observe)
