"""C11 - at most one block per type; presence, count and lookup agree with content.

Exploration as in C03 but with the *invalid* requests in the alphabet too (add of a present
kind, add/setter on a full table, remove/replace of an absent kind).  In every state every
accessor is evaluated against the reference model: presence predicates, len, get_block by
type and by every slot index in [-1, N], [], blocks, the six typed getters."""
import collections

from .. import core, kdriver, specs
from .. import tdfref as R
from . import kcommon

PROP = "C11"
RULE = ("states as in C03 plus the states reached through refused requests; per state ~(6 + N + 2|kinds|) accessor "
        "evaluations vs. the model; per transition: duplicate add => ValueError and unchanged file, setter => "
        "replace-or-add; non-trivial = states with >= 2 live blocks")
ASSUMPTIONS = [
    "state restore as in C03",
    "a negative slot index may either raise or address from the end (the statement does not say); an index >= N "
    "must raise",
    "tdf.blocks is only evaluated on files without opaque (undecodable) blocks",
]


def _enc(b):
    """Re-encoding of a block a lookup returned; a block that cannot even be encoded is certainly not the
    stored one."""
    try:
        return specs.lib_encode(b)
    except Exception as e:  # noqa: BLE001
        return ("unencodable", type(e).__name__)


def _expect_block(fn, t, payload, what, op, cfg, where):
    try:
        b = fn()
    except Exception as x:  # noqa: BLE001
        raise core.Violation("lookup-raises", kcommon.sig(PROP, "lookup-raises", op, cfg, what), None,
                             f"{where}: {what} raised {type(x).__name__}: {x} although {str(R.NAMES.get(t, t))} is present")
    bt = getattr(getattr(b, "type", None), "value", None)
    if bt != t:
        raise core.Violation("lookup-wrong-type", kcommon.sig(PROP, "lookup-wrong-type", op, cfg, what), None,
                             f"{where}: {what} returned {type(b).__name__} (type {bt}), expected {str(R.NAMES.get(t, t))}")
    if _enc(b) != payload:
        raise core.Violation("lookup-wrong-content", kcommon.sig(PROP, "lookup-wrong-content", op, cfg, what), None,
                             f"{where}: {what} returned a {str(R.NAMES.get(t, t))} block with other content than the live one")


def _expect_raise(fn, what, op, cfg, where, exc_types=Exception):
    try:
        r = fn()
    except exc_types:
        return
    except Exception as x:  # noqa: BLE001
        raise core.Violation("lookup-wrong-exception", kcommon.sig(PROP, "lookup-wrong-exception", op, cfg, what), None,
                             f"{where}: {what} raised {type(x).__name__}")
    raise core.Violation("absent-lookup-returns", kcommon.sig(PROP, "absent-lookup-returns", op, cfg, what), None,
                         f"{where}: {what} returned {r!r:.80} although nothing of that kind is live")


def observe(sess, hist, op, exc, valid, reason, pre, acc):
    from .. import env

    try:
        with env.time_limit(5):
            return _observe(sess, hist, op, exc, valid, reason, pre, acc)
    except env.LibraryCallTimeout as e:
        raise core.Violation("lookup-does-not-return", kcommon.sig(PROP, "lookup-does-not-return", op, sess.cfg), None,
                             f"after {[kdriver.op_str(o) for o in hist]}: {e} (blocks in this exploration are a few hundred bytes)")


def _observe(sess, hist, op, exc, valid, reason, pre, acc):
    cfg = sess.cfg
    model = sess.model
    tdf = sess.tdf
    BT = specs.lib().block.BlockType
    where = f"after {[kdriver.op_str(o) for o in hist]}"
    data = sess.disk()
    try:
        p = R.parse_file(data)
    except R.LayoutError as e:
        raise core.Violation("unparsable", kcommon.sig(PROP, "unparsable", op, cfg), None, f"{where}: {e}")
    # ---- transition oracle
    if op is not None and op[0] == "add" and not valid and reason == "duplicate":
        if exc is None:
            raise core.Violation("duplicate-accepted", kcommon.sig(PROP, "duplicate-accepted", op, cfg), None,
                                 f"{where}: add_block of a kind that is already present returned normally")
        if not isinstance(exc, ValueError):
            raise core.Violation("duplicate-wrong-exception", kcommon.sig(PROP, "duplicate-wrong-exception", op, cfg, type(exc).__name__),
                                 None, f"{where}: duplicate add raised {type(exc).__name__}: {exc}, expected ValueError")
    if op is not None and op[0] == "set" and valid and exc is not None:
        raise core.Violation("setter-refused", kcommon.sig(PROP, "setter-refused", op, cfg, type(exc).__name__), None,
                             f"{where}: assignment raised {type(exc).__name__}: {exc}")
    # ---- at most one per kind
    cnt = collections.Counter(e["type"] for e in p["entries"] if e["type"] != 0)
    dup = [str(R.NAMES.get(t, t)) for t, c in cnt.items() if c > 1]
    if dup:
        raise core.Violation("two-blocks-of-one-kind", kcommon.sig(PROP, "two-blocks-of-one-kind", op, cfg), None,
                             f"{where}: file holds {dict((str(R.NAMES.get(t, t)), c) for t, c in cnt.items())}")
    if sorted(cnt) != sorted(model.live):
        raise core.Violation("live-set!=model", kcommon.sig(PROP, "live-set!=model", op, cfg), None,
                             f"{where}: file {sorted(str(R.NAMES.get(t, t)) for t in cnt)} model {sorted(str(R.NAMES.get(t, t)) for t in model.live)}")
    # ---- accessors: they depend on the state only, so in the BFS (where every transition starts from a
    # fresh object) each canonical state is swept once; the chain walks always sweep
    if _BFS_MEMO is not None:
        k = kdriver.canon(sess)
        if k in _BFS_MEMO:
            return
        _BFS_MEMO.add(k)
    n = p["n"]
    try:
        got_len = len(tdf)
    except Exception as x:  # noqa: BLE001
        raise core.Violation("len", kcommon.sig(PROP, "len", op, cfg, type(x).__name__), None, f"{where}: len(tdf) raised {type(x).__name__}: {x}")
    if got_len != len(model.live):
        raise core.Violation("len", kcommon.sig(PROP, "len", op, cfg), None, f"{where}: len {got_len} vs {len(model.live)} live")
    acc.n["accessor_evals"] += 1
    for t, name in kdriver.HAS.items():
        if hasattr(type(tdf), name):
            got = getattr(tdf, name)
            acc.n["accessor_evals"] += 1
            if bool(got) != (t in model.live) or not isinstance(got, bool):
                raise core.Violation("presence", kcommon.sig(PROP, "presence", op, cfg, name), None,
                                     f"{where}: {name} = {got!r}, model says {t in model.live}")
    kinds = sorted(set(cfg.types) | set(model.live) | set(kdriver.GETTERS))
    for t in kinds:
        if t not in R.WRITABLE:
            continue
        acc.n["accessor_evals"] += 2
        if t in model.live:
            _expect_block(lambda: tdf.get_block(BT(t)), t, model.live[t].payload, f"get_block({str(R.NAMES.get(t, t))})", op, cfg, where)
            _expect_block(lambda: tdf[BT(t)], t, model.live[t].payload, f"tdf[{str(R.NAMES.get(t, t))}]", op, cfg, where)
        else:
            _expect_raise(lambda: tdf.get_block(BT(t)), f"get_block({str(R.NAMES.get(t, t))})", op, cfg, where)
            _expect_raise(lambda: tdf[BT(t)], f"tdf[{str(R.NAMES.get(t, t))}]", op, cfg, where)
        g = kdriver.GETTERS.get(t)
        if g:
            acc.n["accessor_evals"] += 1
            if t in model.live:
                _expect_block(lambda: getattr(tdf, g), t, model.live[t].payload, f"tdf.{g}", op, cfg, where)
            else:
                _expect_raise(lambda: getattr(tdf, g), f"tdf.{g}", op, cfg, where)
    ent = p["entries"]
    for i in range(-1, n + 1):
        acc.n["accessor_evals"] += 1
        what = f"get_block({i})"
        if i >= n:
            _expect_raise(lambda: tdf.get_block(i), what + ">=N", op, cfg, where, (IndexError,))
            _expect_raise(lambda: tdf[i], f"tdf[{i}]>=N", op, cfg, where, (IndexError,))
            continue
        if i < 0:
            try:
                b = tdf.get_block(i)
            except Exception:  # noqa: BLE001
                continue
            e = ent[n + i]
        else:
            e = ent[i]
            b = None
        if e["type"] in R.WRITABLE:
            if b is None:
                _expect_block(lambda: tdf.get_block(i), e["type"], model.live[e["type"]].payload, what, op, cfg, where)
                _expect_block(lambda: tdf[i], e["type"], model.live[e["type"]].payload, f"tdf[{i}]", op, cfg, where)
            elif getattr(b.type, "value", None) != e["type"] or _enc(b) != model.live[e["type"]].payload:
                raise core.Violation("lookup-wrong-content", kcommon.sig(PROP, "lookup-wrong-content", op, cfg, "negative-index"),
                                     None, f"{where}: {what}")
        elif e["type"] == 0:
            try:
                b = b if b is not None else tdf.get_block(i)
            except Exception:  # noqa: BLE001
                continue
            if getattr(getattr(b, "type", None), "value", None) != 0:
                raise core.Violation("unused-slot-yields-block", kcommon.sig(PROP, "unused-slot-yields-block", op, cfg), None,
                                     f"{where}: {what} on an unused slot returned {b!r:.60}")
    if all(t in R.WRITABLE for t in model.live):
        acc.n["accessor_evals"] += 1
        try:
            blocks = tdf.blocks
        except Exception as x:  # noqa: BLE001
            raise core.Violation("blocks-raises", kcommon.sig(PROP, "blocks-raises", op, cfg, type(x).__name__), None,
                                 f"{where}: tdf.blocks raised {type(x).__name__}: {x}")
        liveb = [b for b in blocks if getattr(b.type, "value", None) != 0]
        got = sorted(((b.type.value, _enc(b)) for b in liveb), key=lambda x: (x[0], repr(x[1])[:40]))
        want = sorted((t, r.payload) for t, r in model.live.items())
        if got != want:
            raise core.Violation("blocks!=live-set", kcommon.sig(PROP, "blocks!=live-set", op, cfg), None,
                                 f"{where}: blocks lists {[R.NAMES.get(t) for t, _ in got]}, live {[str(R.NAMES.get(t, t)) for t, _ in want]}")


_BFS_MEMO = None
_bfs = kcommon.make_run(__name__, "observe", include_invalid=True, extra_ops=kcommon.unused_ops)


def _shard(cfg_w):
    global _BFS_MEMO
    _BFS_MEMO = set()
    try:
        return _bfs(cfg_w)
    finally:
        _BFS_MEMO = None



_chain = kcommon.make_chain_run(__name__, "observe", extra_ops=kcommon.unused_ops, faults=True)


def _holes(_):
    """Files with an unused slot between live blocks (other software writes those): every accessor
    must still report exactly the live blocks."""
    from .. import env

    acc = core.Acc()
    tr = kcommon.env_rotate()
    directory = env.scratch_dir("c11h")
    for n in (3, 14):
        for hole in (0, 1):
            t1, t2 = tr[0][0], tr[1][0]
            cfg = kdriver.Config(f"hole{hole}-N{n}", n, [kdriver.known_record(t1, 0), kdriver.known_record(t2, 1)], tr[0], 1, hole_at=hole)
            sess = kdriver.Session(cfg, directory)
            sess.model = kdriver.Model.from_config(cfg)
            acc.n["states"] += 1
            acc.n["evaluations"] += 1
            acc.n["nontrivial"] += 1
            acc.n["transitions"] += 1
            try:
                observe(sess, (), None, None, True, "", None, acc)
                acc.n["traces"] += 1
                acc.outcomes["hole-file:accessors-agree"] += 1
            except core.Violation as v:
                acc.violation(v.clause, v.sig + f":hole{hole}", {"config": cfg.to_witness(), "base": None, "ops": [], "history": []}, v.detail)
            finally:
                sess.close()
    acc.sample({"foreign files": "unused slot before / between live blocks, N in {3, 14}: full accessor sweep"}, 1)
    return acc


def run(tier):
    acc = kcommon.run_configs(__name__, tier)
    acc.merge(core.pmap(__name__, "_holes", [0]))
    # straight-line histories in ONE context with reads in between (read-side hidden state)
    acc.merge(core.pmap(__name__, "_chain", [c.to_witness() for c in kcommon.chain_configs(tier)]))
    return acc


def replay(w):
    return kcommon.replay_any(w, observe)
