"""C14 - equality tells equal content from different content.

For every base block a (all nine kinds, 0..3 items, gaps, both 3D / calibration formats, both
in-memory widths) and each b in {a itself, a rebuilt from the same spec, decode(encode(a))}:
a == b and b == a must be true.  For every single-site mutation of the spec (mc.mutate):
a == b and b == a must be false, also for the decoded forms.  Files: pairs of files built from
such blocks compare equal exactly when version, slot count and block lists do."""
import itertools
import os

import numpy as np

from .. import core, editwalk, env, gen, kdriver, mutate, specs
from .. import tdfref as R

PROP = "C14"
RULE = ("states = (base block, partner) pairs; partners: self, rebuilt, decode(encode), and every single-site mutation "
        "(each header scalar, label, channel, sample changed by >=1.0 and >=50%, moved gap, item appended / removed "
        "first-middle-last); both directions; plus file pairs; non-trivial = pair involves a gap, >=2 items or a mutation")
RULE = RULE + editwalk.RULE_SUFFIX
ASSUMPTIONS = [
    "'beyond float tolerance' = changed by at least 1.0 and at least 50 % (numpy allclose defaults are 1e-5 / 1e-8)",
    "only same-kind pairs are compared (the statement's quantifier)",
    "base blocks: a fixed list per kind (see bases()); not every builder state of C01",
]


EDGE_TEXT = ["é€ß – ™œ", " a\t "]  # cp1252-only characters (0x80..0x9F), leading / trailing white space


def bases(t, tier):
    return _bases(t, tier) + _edge_bases(t)


def _edge_bases(t):
    """Bases whose *values* sit at the edge of a field's domain: text with cp1252-only characters and
    outer blanks, channel numbers at both ends of the on-disk integer type."""
    g = gen
    T, F = True, False
    if t in gen.RLE_TYPES:
        chans = {R.T_PLATDATA: [65535, 32768], R.T_EMG: [-1, 32767]}.get(t, [5, 1])
        out = [g.rle_block(t, 2, [(T, F), (F, T)], labels=list(EDGE_TEXT), chans=chans)]
        if t == R.T_EMG:
            out.append(g.rle_block(t, 2, [(T, T), (F, T)], chans=[-32768, 0]))
        return out
    if t == R.T_PLATCAL:
        return [g.platcal([(-32768, g.mk_platinfo(EDGE_TEXT[0], 1)), (32767, g.mk_platinfo(EDGE_TEXT[1], 2))])]
    if t == R.T_DATA2D:
        return [g.data2d(2, 1, g.cells_grid(1, 2, (1, 3)), cmap=[32767, 0])]
    if t == R.T_CALIB:
        return [g.calib(fmt, [g.mk_cam(fmt, 1), g.mk_cam(fmt, 2)], cmap=[-1, 32767]) for fmt in (1, 2)]
    if t == R.T_OPT:
        last = g.mk_chan(2)
        last["index"] = 2 ** 30
        return [g.optical([g.mk_chan(0, lens=EDGE_TEXT[0][:8], ctype=EDGE_TEXT[1], name="€"), last])]
    if t == R.T_EVENTS:
        return [g.events([g.mk_event(EDGE_TEXT[0], 0, 1), g.mk_event(EDGE_TEXT[1], 1, 3, 3)])]
    raise ValueError(t)


def _bases(t, tier):
    g = gen
    T, F = True, False
    if t in gen.RLE_TYPES:
        out = [g.rle_block(t, 3, []), g.rle_block(t, 3, [(T, T, T)]), g.rle_block(t, 3, [(T, F, T)], chans=[4]),
               g.rle_block(t, 4, [(F, T, T, F), (T, T, F, T)], chans=[5, 1]),
               g.rle_block(t, 2, [(T, T), (F, F), (T, F)], chans=[2, 0, 9])]
        out += [g.rle_block(t, 4, [m]) for m in g.all_masks(4)]
        if tier == "thorough":
            out += [g.rle_block(t, 6, [m]) for m in g.all_masks(6)]
        if t == R.T_DATA3D:
            out += [g.data3d(3, [g.mk_track3d(3, (T, F, T), "m")], fmt=2),
                    g.data3d(3, [g.mk_track3d(3, (T, T, T), "m"), g.mk_track3d(3, (F, T, T), "n", 4)], links=[(0, 1), (1, 0)])]
        return out
    if t == R.T_PLATCAL:
        return [g.platcal([]), g.platcal([(1, g.mk_platinfo("P"))]), g.platcal([(0, g.mk_platinfo("a", 1)), (3, g.mk_platinfo("b", 2))]),
                g.platcal([(2, g.mk_platinfo("a", 1)), (0, g.mk_platinfo("a", 2)), (7, g.mk_platinfo("", 3))])]
    if t == R.T_DATA2D:
        return [g.data2d(1, 1, g.cells_grid(1, 1, (0,))), g.data2d(1, 1, g.cells_grid(1, 1, (2,))),
                g.data2d(2, 2, g.cells_grid(2, 2, (1, 0, 3, 1))), g.data2d(2, 1, g.cells_grid(1, 2, (0, 0)), cmap=[5, 6])]
    if t == R.T_CALIB:
        out = []
        for fmt in (1, 2):
            out += [g.calib(fmt, []), g.calib(fmt, [g.mk_cam(fmt, 1)]), g.calib(fmt, [g.mk_cam(fmt, 1), g.mk_cam(fmt, 2)], cmap=[4, 2]),
                    g.calib(fmt, [g.mk_cam(fmt, i) for i in range(3)])]
        return out
    if t == R.T_OPT:
        return [g.optical([]), g.optical([g.mk_chan(1)]), g.optical([g.mk_chan(0), g.mk_chan(2)]),
                g.optical([g.mk_chan(i) for i in range(3)])]
    if t == R.T_EVENTS:
        return [g.events([]), g.events([g.mk_event("e", 1, 2)]), g.events([g.mk_event("a", 0, 1), g.mk_event("b", 1, 3, 3)]),
                g.events([g.mk_event("a", 0, 0), g.mk_event("a", 1, 0, 1), g.mk_event("", 1, 1, 2)])]
    raise ValueError(t)


def _eq(x, y, what, sp, site):
    try:
        r = x == y
    except Exception as e:  # noqa: BLE001
        raise core.Violation("eq-raises", f"{PROP}:{R.NAMES[sp['type']]}:eq-raises:{site}:{type(e).__name__}", None,
                             f"{gen.spec_label(sp)} :: {what}: {type(e).__name__}: {e}")
    if isinstance(r, np.ndarray):
        raise core.Violation("eq-not-bool", f"{PROP}:{R.NAMES[sp['type']]}:eq-not-bool:{site}", None, f"{what} returned an array")
    return bool(r)


def _forms(sp, opts):
    a = specs.build(sp, **opts)
    rebuilt = specs.build(sp, **opts)
    dec = specs.lib_decode(sp["type"], sp["format"], specs.lib_encode(a))[0]
    return a, rebuilt, dec


def _unencodable_twin(sp):
    """The same block with a 300-character label on its first item (constructors accept that; writing
    it raises), or None for kinds without labels / empty blocks."""
    import copy

    t = sp["type"]
    key = {R.T_OPT: "name"}.get(t, "label")
    twin = copy.deepcopy(sp)
    for k in ("tracks", "items", "channels", "events"):
        if k in twin and twin[k]:
            it = twin[k][0]
            d = it[1] if isinstance(it, tuple) else it
            if key in d:
                d[key] = "L" * 300
                try:
                    return specs.build(twin)
                except Exception:  # noqa: BLE001
                    return None
    return None


def _gappy(sp):
    return "." in gen.spec_label(sp) if sp["type"] in gen.RLE_TYPES else False


def check_base(sp, opts, acc):
    name = R.NAMES[sp["type"]]
    lab = gen.spec_label(sp)
    a, rebuilt, dec = _forms(sp, opts)
    kind = "gaps" if _gappy(sp) else f"fmt{sp['format']}"
    # a comparison that cannot be carried out (one side holds a label that cannot be encoded) comes first:
    # whatever it does, the comparisons after it must be judged on their own
    bad = _unencodable_twin(sp)
    if bad is not None:
        for x, y in ((bad, a), (a, bad)):
            try:
                x == y  # noqa: B015
            except Exception:  # noqa: BLE001
                pass
            acc.n["transitions"] += 1
    for what, b in (("a == a", a), ("a == rebuilt(a)", rebuilt), ("a == decode(encode(a))", dec)):
        acc.n["transitions"] += 2
        acc.n["pairs"] += 1
        site = what.split("== ")[1].split("(")[0]
        if not _eq(a, b, what, sp, site):
            raise core.Violation("equal-content-unequal", f"{PROP}:{name}:equal-content-unequal:{site}:{kind}", None,
                                 f"{lab} :: {what} is False")
        if not _eq(b, a, what + " (reversed)", sp, site):
            raise core.Violation("equal-content-unequal", f"{PROP}:{name}:equal-content-unequal:{site}:{kind}:rev", None,
                                 f"{lab} :: reversed {what} is False")
    nmut = 0
    for site, msp in mutate.sites(sp):
        if R.encode_block(msp) == R.encode_block(sp) and msp.get("format") == sp.get("format"):
            raise core.HarnessError(f"mutation {site} did not change {lab}")
        try:
            b, _, bdec = _forms(msp, opts)
        except Exception as e:  # noqa: BLE001
            raise core.HarnessError(f"mutated spec not buildable: {site} on {lab}: {type(e).__name__}: {e}")
        nmut += 1
        acc.n["pairs"] += 1
        for what, x, y in (("a == mutated", a, b), ("mutated == a", b, a), ("decoded(a) == decoded(mutated)", dec, bdec),
                           ("decoded(mutated) == a", bdec, a)):
            acc.n["transitions"] += 1
            if _eq(x, y, what, sp, site):
                raise core.Violation("different-content-equal", f"{PROP}:{name}:different-content-equal:{site.split('.')[0]}.{site.split('.')[1] if '.' in site else ''}",
                                     None, f"{lab} :: mutation '{site}': {what} is True")
    acc.n["mutations"] += nmut
    return nmut


def _shard(shard):
    if shard[0] == "files":
        return files_shard(shard)
    if shard[0] == "edge_pairs":
        return edge_pairs_shard(shard)
    t = shard[1]
    acc = core.Acc()
    for sp in bases(t, _shard.tier):
        for opts in ({}, {"mem": "f8"}):
            if opts and t in (R.T_CALIB, R.T_OPT):
                continue
            acc.n["states"] += 1
            acc.n["evaluations"] += 1
            try:
                nm = check_base(sp, opts, acc)
                acc.n["states"] += nm
                acc.n["nontrivial"] += nm + (1 if _gappy(sp) else 0)
                acc.outcomes[f"{R.NAMES[t]}:faithful"] += 1
                acc.n["traces"] += 1 + nm
            except core.Violation as v:
                acc.violation(v.clause, v.sig, {"spec": specs.dump(sp), "opts": opts}, v.detail)
            acc.sample({"base": gen.spec_label(sp), "opts": opts, "partners": "self, rebuilt, decoded, every single-site mutation"}, 2)
    return acc


# ----------------------------------------------------------------------------- files
def files_shard(_):
    acc = core.Acc()
    n = specs.lib()
    tmp = env.scratch_dir("c14")
    ev = gen.events([gen.mk_event("e", 1, 2)])
    ev2 = next(m for s, m in mutate.sites(ev) if s.startswith("sample"))
    em = gen.emg(3, [(1, gen.mk_emgsig(3, (True, False, True), "s"))])
    em2 = next(m for s, m in mutate.sites(em) if s == "gap.moved")
    d3 = gen.data3d(2, [gen.mk_track3d(2, (True, True), "m")])

    def rec(sp, comment="c"):
        return dict(type=sp["type"], format=sp["format"], payload=R.encode_block(sp), comment=comment, ctime=1_500_000_000,
                    mtime=1_500_000_001, atime=1_500_000_002)

    def mk(name, nslots, blocks, version=1, via="ref"):
        path = os.path.join(tmp, name)
        if os.path.exists(path):
            os.unlink(path)
        if via == "ref":
            open(path, "wb").write(R.build_file(nslots, [rec(b) for b in blocks], version=version))
        else:
            with n.tdf.Tdf.new(path).allow_write() as f:
                for b in blocks:
                    f.add_block(specs.build(b), "c")
        return path

    # (label, file A, file B, expected equal)
    cases = [
        ("same blocks, both library-written", ("lib", 14, [ev, em], 1), ("lib", 14, [ev, em], 1), True),
        ("same blocks, library vs reference-built", ("lib", 14, [ev, em], 1), ("ref", 14, [ev, em], 1), True),
        ("same file twice", ("ref", 3, [ev, em], 1), ("ref", 3, [ev, em], 1), True),
        ("empty vs empty", ("ref", 2, [], 1), ("ref", 2, [], 1), True),
        ("one sample differs", ("ref", 3, [ev, em], 1), ("ref", 3, [ev2, em], 1), False),
        ("gap moved in second block", ("ref", 3, [ev, em], 1), ("ref", 3, [ev, em2], 1), False),
        ("extra block", ("ref", 3, [ev, em], 1), ("ref", 3, [ev, em, d3], 1), False),
        ("block missing", ("ref", 3, [ev, em], 1), ("ref", 3, [ev], 1), False),
        ("blocks in another order", ("ref", 3, [ev, em], 1), ("ref", 3, [em, ev], 1), False),
        ("slot count differs", ("ref", 3, [ev, em], 1), ("ref", 4, [ev, em], 1), False),
        ("version differs", ("ref", 3, [ev, em], 1), ("ref", 3, [ev, em], 2), False),
        ("empty vs one block", ("ref", 2, [], 1), ("ref", 2, [ev], 1), False),
    ]
    # files written by other software: an unused slot between live blocks
    def mk_hole(name, blocks):
        path = os.path.join(tmp, name)
        open(path, "wb").write(R.build_file(4, [rec(b) for b in blocks], hole_at=1))
        return path

    hole_cases = [("hole files, same blocks", [em, ev], [em, ev], True),
                  ("hole files, block behind the hole differs", [em, ev], [em, ev2], False),
                  ("hole files, block before the hole differs", [em, ev], [em2, ev], False)]
    for label, A, B, want in hole_cases:
        acc.n["states"] += 1
        acc.n["evaluations"] += 1
        acc.n["nontrivial"] += 1
        pa, pb = mk_hole("ha.tdf", A), mk_hole("hb.tdf", B)
        wit = {"files": label}
        try:
            with n.tdf.Tdf(pa) as fa, n.tdf.Tdf(pb) as fb:
                r1, r2 = fa == fb, fb == fa
            acc.n["transitions"] += 2
        except Exception as e:  # noqa: BLE001
            acc.violation("eq-raises", f"{PROP}:files:eq-raises:{type(e).__name__}", wit, f"{label}: {type(e).__name__}: {e}")
            continue
        if bool(r1) != want or bool(r2) != want:
            clause = "equal-content-unequal" if want else "different-content-equal"
            acc.violation(clause, f"{PROP}:files:{clause}:{label}", wit, f"{label}: == gives {r1}/{r2}, expected {want}")
        else:
            acc.outcomes[f"files:hole:{'equal' if want else 'unequal'}"] += 1
            acc.n["traces"] += 1
    for label, A, B, want in cases:
        acc.n["states"] += 1
        acc.n["evaluations"] += 1
        acc.n["nontrivial"] += 1
        pa = mk("a.tdf", A[1], A[2], A[3], A[0])
        pb = mk("b.tdf", B[1], B[2], B[3], B[0])
        wit = {"files": label}
        try:
            with n.tdf.Tdf(pa) as fa, n.tdf.Tdf(pb) as fb:
                r1, r2 = fa == fb, fb == fa
            acc.n["transitions"] += 2
        except Exception as e:  # noqa: BLE001
            acc.violation("eq-raises", f"{PROP}:files:eq-raises:{type(e).__name__}", wit, f"{label}: {type(e).__name__}: {e}")
            continue
        if bool(r1) != want or bool(r2) != want:
            clause = "equal-content-unequal" if want else "different-content-equal"
            acc.violation(clause, f"{PROP}:files:{clause}:{label}", wit, f"{label}: == gives {r1}/{r2}, expected {want}")
        else:
            acc.outcomes[f"files:{'equal' if want else 'unequal'}"] += 1
            acc.n["traces"] += 1
    # objects that were opened earlier and are compared outside any context, after one of the files was changed
    # through another object: == has to look at the files as they are now
    stale = [("file A gains the missing block through another object -> equal", [ev], [ev, em], ("add", em), True),
             ("file A loses a block through another object -> unequal", [ev, em], [ev, em], ("remove", em), False),
             ("file A's block is replaced through another object -> unequal", [ev, em], [ev, em], ("replace", em2), False)]
    for label, A, B, change, want in stale:
        acc.n["states"] += 1
        acc.n["evaluations"] += 1
        acc.n["nontrivial"] += 1
        pa, pb = mk("sa.tdf", 3, A, 1, "ref"), mk("sb.tdf", 3, B, 1, "ref")
        wit = {"files": label}
        try:
            fa, fb = n.tdf.Tdf(pa), n.tdf.Tdf(pb)
            for f in (fa, fb):       # both objects have been used before (whatever they remember)
                with f:
                    len(f)
                    f.blocks
            first = (fa == fb)
            with n.tdf.Tdf(pa).allow_write() as other:
                if change[0] == "add":
                    other.add_block(specs.build(change[1]), "c")
                elif change[0] == "remove":
                    other.remove_block(n.block.BlockType(change[1]["type"]))
                else:
                    other.replace_block(specs.build(change[1]), "c")
            r1, r2 = fa == fb, fb == fa
            acc.n["transitions"] += 4
        except Exception as e:  # noqa: BLE001
            acc.violation("eq-raises", f"{PROP}:files:eq-raises:stale:{type(e).__name__}", wit, f"{label}: {type(e).__name__}: {e}")
            continue
        if bool(first) == want or bool(r1) != want or bool(r2) != want:
            clause = "equal-content-unequal" if want else "different-content-equal"
            acc.violation(clause, f"{PROP}:files:{clause}:stale-object", wit,
                          f"{label}: before the change == gave {first} (expected {not want}), afterwards {r1}/{r2} (expected {want})")
        else:
            acc.outcomes[f"files:stale-object:{'equal' if want else 'unequal'}"] += 1
            acc.n["traces"] += 1
    acc.sample({"file pairs": [c[0] for c in cases] + [c[0] for c in stale]}, 1)
    return acc


def edge_pairs_shard(_):
    """Pairs the single-site mutations do not produce:
    * blocks decoded from other software's bytes whose labels fill the whole field and differ only in the last
      character (unequal), and the same bytes decoded twice (equal);
    * blocks with the same items in the same order but another number of frames (unequal - not an exception)."""
    acc = core.Acc()
    T = True
    for t in (R.T_DATA3D, R.T_FORCE3D, R.T_EMG, R.T_EVENTS, R.T_PLATCAL, R.T_OPT):
        width = 32 if t == R.T_OPT else 256
        for where in (0, 1):
            def make(last):
                labs = ["k0", "k1"]
                labs[where] = "w" * (width - 1) + last
                if t in gen.RLE_TYPES:
                    return gen.rle_block(t, 2, [(T, T), (T, False)], labels=labs, chans=[5, 1])
                if t == R.T_EVENTS:
                    return gen.events([gen.mk_event(labs[0], 1, 2, 0), gen.mk_event(labs[1], 0, 1, 1)])
                if t == R.T_PLATCAL:
                    return gen.platcal([(3, gen.mk_platinfo(labs[0], 0)), (1, gen.mk_platinfo(labs[1], 1))])
                return gen.optical([gen.mk_chan(0, name=labs[0]), gen.mk_chan(1, name=labs[1])])
            spa, spb = make("a"), make("b")
            acc.n["states"] += 1
            acc.n["evaluations"] += 1
            acc.n["nontrivial"] += 1
            wit = {"edge_pair": ["full-width", t, where]}
            try:
                a1 = specs.lib_decode(t, spa["format"], R.encode_block(spa, full_ok=True))[0]
                a2 = specs.lib_decode(t, spa["format"], R.encode_block(spa, full_ok=True))[0]
                b1 = specs.lib_decode(t, spb["format"], R.encode_block(spb, full_ok=True))[0]
                acc.n["transitions"] += 3
                same = _eq(a1, a2, "same foreign bytes decoded twice", spa, "full-width") and _eq(a2, a1, "same foreign bytes decoded twice", spa, "full-width")
                diff = _eq(a1, b1, "full-width labels differing in the last character", spa, "full-width") or \
                    _eq(b1, a1, "full-width labels differing in the last character", spa, "full-width")
            except core.Violation as v:
                if v.clause == "eq-raises":
                    # kinds whose == compares encodings cannot compare a block that cannot be written (a full-width
                    # label has no room for the terminator): no verdict, hence no wrong verdict - like the
                    # unencodable twins of check_base
                    acc.outcomes[f"{R.NAMES[t]}:full-width:not-comparable"] += 1
                    acc.n["traces"] += 1
                    continue
                acc.violation(v.clause, v.sig, wit, v.detail)
                continue
            except Exception as e:  # noqa: BLE001
                acc.violation("conformant-bytes-refused", f"{PROP}:{R.NAMES[t]}:foreign-decode:{type(e).__name__}", wit, f"{type(e).__name__}: {e}")
                continue
            if not same:
                acc.violation("equal-content-unequal", f"{PROP}:{R.NAMES[t]}:equal-content-unequal:full-width", wit,
                              f"{R.NAMES[t]}: the same bytes (item {where} has a label filling its {width}-byte field) decoded twice compare unequal")
            elif diff:
                acc.violation("different-content-equal", f"{PROP}:{R.NAMES[t]}:different-content-equal:full-width", wit,
                              f"{R.NAMES[t]}: labels of item {where} fill the {width}-byte field and differ in the last character, blocks compare equal")
            else:
                acc.outcomes[f"{R.NAMES[t]}:full-width:told-apart"] += 1
                acc.n["traces"] += 1
    for t in gen.RLE_TYPES:
        for n1, n2 in ((3, 4), (4, 3), (1, 2), (2, 1)):
            for items in (1, 2):
                spa = gen.rle_block(t, n1, [tuple([T] * n1)] * items, chans=[5, 1])
                spb = gen.rle_block(t, n2, [tuple([T] * n2)] * items, chans=[5, 1])
                acc.n["states"] += 1
                acc.n["evaluations"] += 1
                acc.n["nontrivial"] += 1
                wit = {"edge_pair": ["frames", t, n1, n2, items]}
                try:
                    forms_a, forms_b = _forms(spa, {}), _forms(spb, {})
                    acc.n["transitions"] += 6
                    bad = None
                    for fa in (forms_a[0], forms_a[2]):
                        for fb in (forms_b[0], forms_b[2]):
                            if _eq(fa, fb, f"{n1} vs {n2} frames", spa, "frame-count") or _eq(fb, fa, f"{n2} vs {n1} frames", spa, "frame-count"):
                                bad = "compare equal"
                except core.Violation as v:
                    acc.violation(v.clause, v.sig, wit, v.detail)
                    continue
                if bad:
                    acc.violation("different-content-equal", f"{PROP}:{R.NAMES[t]}:different-content-equal:frame-count", wit,
                                  f"{R.NAMES[t]}: {items} item(s), {n1} vs {n2} frames: {bad}")
                else:
                    acc.outcomes[f"{R.NAMES[t]}:frame-count:told-apart"] += 1
                    acc.n["traces"] += 1
    acc.sample({"edge pairs": "full-width foreign labels differing in the last character; same items with another frame count"}, 1)
    return acc


def run(tier):
    _shard.tier = tier
    acc = core.pmap(__name__, "_shard", [("files",), ("edge_pairs",)] + [("blocks", t) for t in R.WRITABLE])
    acc.merge(core.pmap("mc.editwalk", "run_shard", editwalk.shards(PROP, tier)))
    return acc


def replay(w):
    if w.get("editwalk"):
        return editwalk.replay(w)
    if "files" in w or "edge_pair" in w:
        acc = files_shard(None) if "files" in w else edge_pairs_shard(None)
        for v in acc.violations:
            if v["witness"] == w:
                return core.Violation(v["clause"], v["sig"], w, v["detail"])
        return None
    try:
        check_base(specs.load(w["spec"]), w["opts"], core.Acc())
    except core.Violation as v:
        return v
    return None
