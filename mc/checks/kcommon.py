"""Shared plumbing of the container checks (C03 C04 C09 C10 C11): run one exploration per
configuration on the process pool, replay a witness history."""
from .. import core, kdriver
from .. import tdfref as R


def long_comment_ops(cfg, model):
    """add_block with a comment that is one byte too long: must be refused; if an implementation
    accepts it the structural invariants still have to hold afterwards."""
    if len(model.live) >= model.n:
        return []
    return [("add", t, 0, 3) for t in cfg.types if t not in model.live][:1]


def unused_ops(cfg, model):
    return [("add_unused",), ("remove_unused",)] if len(model.live) < model.n else []


def make_run(modname, observe_name, include_invalid=False, extra_ops=None):
    def _shard(cfg_w):
        import importlib

        mod = importlib.import_module(modname)
        cfg = kdriver.Config.from_witness(cfg_w)
        acc = core.Acc()
        kdriver.explore(cfg, getattr(mod, observe_name), acc, include_invalid=include_invalid, extra_ops=extra_ops)
        return acc

    return _shard


def run_configs(modname, tier, shard_fn_name="_shard"):
    cfgs = kdriver.configs(tier)
    # biggest first so that the pool stays busy
    cfgs.sort(key=lambda c: -(len(c.types) * c.nvar) ** min(c.n, 5))
    return core.pmap(modname, shard_fn_name, [c.to_witness() for c in cfgs])


def replay(w, observe):
    try:
        kdriver.run_witness(w, observe)
    except core.Violation as v:
        return v
    return None


def sig(prop, clause, op, cfg, extra=""):
    """Signature: property, oracle clause, kind of the last operation, table length."""
    kind = op[0] if op else "initial"
    how = f"-{op[2]}" if op and op[0] == "remove" else ""
    return f"{prop}:{clause}:{kind}{how}:N{cfg.n}{(':' + extra) if extra else ''}"


def late_faults(cfg, model):
    """Requests that are refused only after the block / entry has been looked at; a later valid call in
    the same context must find everything as if they had never been made."""
    out = []
    full = len(model.live) >= model.n
    for t in cfg.types:
        if t not in model.live and not full:
            out.append(("bad", "add", t, "comment_long", 0))
            from . import c07
            if t in c07.LABELLED:
                out.append(("bad", "add", t, "label_long", 1))
        elif t in model.live:
            out.append(("bad", "replace", t, "comment_noncp", 0))
            out.append(("bad", "replace", t, "comment_long", 0))     # exactly one byte too long (256)
    return out


def make_chain_run(modname, observe_name, extra_ops=None, faults=False):
    def _chain(cfg_w):
        import importlib

        mod = importlib.import_module(modname)
        cfg = kdriver.Config.from_witness(cfg_w)
        acc = core.Acc()
        if faults:
            from . import c07

            kdriver.explore_chains(cfg, getattr(mod, observe_name), acc, depth=3, extra_ops=extra_ops, fault_call=c07.call_fault,
                                   fault_ops=late_faults)
        else:
            kdriver.explore_chains(cfg, getattr(mod, observe_name), acc, depth=3, extra_ops=extra_ops)
        return acc

    return _chain


def chain_configs(tier, deep=False):
    """Small tables for the straight-line walks; deep=True adds tables that keep >= 2 unused slots
    after an add (aliasing between in-memory entries needs those)."""
    out = [c for c in kdriver.configs(tier) if c.n <= 2 and c.nvar <= 2][:3 if tier == "quick" else 8]
    if deep:
        tr = env_rotate()
        out.append(kdriver.Config("chain-N3", 3, [], tr[0], 1, edited=True))
        out.append(kdriver.Config("chain-N14-new", 14, "new", tr[1][:2], 1, edited=True))
        out.append(kdriver.Config("chain-N4-pre2", 4, [kdriver.known_record(tr[2][0], 0), kdriver.known_record(tr[2][1], 1)], tr[2], 1, tz=kdriver.TZ_EAST))
        # three blocks already there: two removals and an add in one context, with a survivor to be hurt
        out.append(kdriver.Config("chain-N5-pre3", 5, [kdriver.known_record(tr[3][0], 0), kdriver.known_record(tr[3][1], 1),
                                                       kdriver.opaque_record(6)], tr[3], 1))
        if tier == "thorough":
            out.append(kdriver.Config("chain-N4-opaque", 4, [kdriver.opaque_record(1)], tr[2], 1, junk=True))
    return out


def env_rotate():
    from .. import env

    return env.rotate(kdriver.TRIPLES)


def replay_any(w, observe):
    if w.get("chain"):
        from . import c07

        return kdriver.replay_chain(w, observe, c07.call_fault)
    return replay(w, observe)


# ----------------------------------------------------------------------------- files with a hole in the table
def hole_layouts():
    """Well-formed files as other software leaves them: an unused slot *between* live blocks (3 live
    blocks, one of a kind the library cannot decode; hole before the first / second / third; 4 and 6 slots)."""
    recs = [kdriver.known_record(R.T_EVENTS, 0), kdriver.opaque_record(1), kdriver.known_record(R.T_EMG, 1)]
    for n in (4, 6):
        for hole in (0, 1, 2):
            yield n, recs, hole, 0
    # ... or unused bytes between the blocks in the data area (table compact or with a hole)
    yield 4, recs, None, 12
    yield 5, recs, 1, 7


def hole_removal_shard(prop, judge):
    """Every sequence of removals (all orders, all lengths) on every hole layout, in one write context.
    The library refuses add / replace on such files (C07) but removes from them; after every removal
    judge(ctx) -> [(clause, detail)] is evaluated.  ctx: n, records, removed (types so far), data (file
    bytes), parsed (independent parse or None), tdf (the open object), path."""
    import itertools
    import os

    from .. import env, specs

    acc = core.Acc()
    ns = specs.lib()
    tmp = env.scratch_dir("holes")
    path = os.path.join(tmp, "h.tdf")
    for n, recs, hole, gap in hole_layouts():
        base = R.build_file(n, recs, hole_at=hole, gap=gap, junk=lambda k: bytes((i * 5 + 0x61) % 255 + 1 for i in range(k)))
        kinds = [r["type"] for r in recs]
        for k in (1, 2, 3):
            for order in itertools.permutations(kinds, k):
                with open(path, "wb") as f:
                    f.write(base)
                env.reset_clock()
                tdf = ns.tdf.Tdf(path).allow_write()
                wit = {"holes": True, "n": n, "hole": hole, "gap": gap, "order": list(order)}
                removed = []
                try:
                    with tdf as f:
                        for t in order:
                            acc.n["states"] += 1
                            acc.n["evaluations"] += 1
                            acc.n["nontrivial"] += 1
                            acc.n["transitions"] += 1
                            try:
                                with env.time_limit(10):
                                    f.remove_block(ns.block.BlockType(t))
                            except Exception as e:  # noqa: BLE001
                                acc.violation("valid-op-refused", f"{prop}:holes:valid-op-refused:{type(e).__name__}", wit,
                                              f"{n} slots, hole before live block {hole}, {gap} unused bytes before each block, removals {[R.NAMES.get(x, x) for x in removed]} then "
                                              f"remove({R.NAMES.get(t, t)}): {type(e).__name__}: {e}")
                                break
                            removed.append(t)
                            with open(path, "rb") as g:
                                data = g.read()
                            try:
                                parsed = R.parse_file(data)
                            except R.LayoutError:
                                parsed = None
                            ctx = dict(n=n, records=recs, removed=list(removed), data=data, parsed=parsed, tdf=f, path=path)
                            bad = judge(ctx)
                            if bad:
                                clause, detail = bad[0]
                                acc.violation(clause, f"{prop}:holes:{clause}", wit,
                                              f"{n} slots, hole before live block {hole}, {gap} unused bytes before each block, after removing {[R.NAMES.get(x, x) for x in removed]}: {detail}")
                                break
                            acc.outcomes["holes:removal:ok"] += 1
                            acc.n["traces"] += 1
                except core.Violation:
                    raise
                except Exception as e:  # noqa: BLE001
                    acc.violation("context-exit-raises", f"{prop}:holes:context-raises:{type(e).__name__}", wit, f"{type(e).__name__}: {e}")
    # requests the library refuses on such files (add / replace / setter: C07 judges the refusal).  Whether it
    # refuses is not this check's business; *if* it accepts, the result is judged like any other successful call.
    for n, recs, hole, gap in hole_layouts():
        base = R.build_file(n, recs, hole_at=hole, gap=gap, junk=lambda k: bytes((i * 5 + 0x61) % 255 + 1 for i in range(k)))
        kinds = [r["type"] for r in recs]
        for first_removed in [None] + kinds:
            attempts = [("add", R.T_DATA3D), ("add", R.T_OPT), ("replace", R.T_EVENTS), ("replace", R.T_EMG), ("set", R.T_EMG), ("set", R.T_FORCE3D)]
            for what, t in attempts:
                if first_removed == t and what == "replace":
                    continue
                with open(path, "wb") as f:
                    f.write(base)
                env.reset_clock()
                wit = {"holes": True, "n": n, "hole": hole, "gap": gap, "order": [first_removed] if first_removed else [], "attempt": [what, t]}
                acc.n["states"] += 1
                acc.n["evaluations"] += 1
                acc.n["transitions"] += 1
                try:
                    with ns.tdf.Tdf(path).allow_write() as f:
                        removed = []
                        if first_removed is not None:
                            f.remove_block(ns.block.BlockType(first_removed))
                            removed = [first_removed]
                        before = open(path, "rb").read()
                        try:
                            with env.time_limit(10):
                                if what == "add":
                                    f.add_block(kdriver.make_block(t, 0))
                                elif what == "replace":
                                    f.replace_block(kdriver.make_block(t, 1))
                                else:
                                    setattr(f, kdriver.SETTERS[t], kdriver.make_block(t, 1))
                            accepted = True
                        except Exception:  # noqa: BLE001
                            accepted = False
                        data = open(path, "rb").read()
                        if not accepted:
                            acc.outcomes[f"holes:{what}:refused"] += 1
                            acc.n["traces"] += 1
                            continue
                        try:
                            parsed = R.parse_file(data)
                        except R.LayoutError:
                            parsed = None
                        # what the file must hold if the request was served: the survivors plus the new block
                        vnew = 0 if what == "add" else 1
                        sp, payload, c, m = kdriver.variant(t, vnew)
                        newrec = dict(type=t, format=sp["format"], payload=payload, comment=None, ctime=c, mtime=m)
                        recs2 = [r for r in recs if r["type"] not in removed and r["type"] != t] + [newrec]
                        ctx = dict(n=n, records=recs2, removed=[x for x in removed if x != t], data=data, parsed=parsed, tdf=f, path=path)
                        bad = judge(ctx)
                        if bad:
                            clause, detail = bad[0]
                            acc.violation(clause, f"{prop}:holes:{clause}:accepted-{what}", wit,
                                          f"{n} slots, hole before live block {hole}, after removing {[R.NAMES.get(x, x) for x in removed]}: "
                                          f"{what}({R.NAMES.get(t, t)}) was accepted and then: {detail}")
                        else:
                            acc.outcomes[f"holes:{what}:accepted-and-sound"] += 1
                            acc.n["traces"] += 1
                except core.Violation:
                    raise
                except Exception as e:  # noqa: BLE001
                    acc.violation("context-exit-raises", f"{prop}:holes:context-raises:{type(e).__name__}", wit, f"{type(e).__name__}: {e}")
    acc.sample({"hole files": "3 live blocks (one opaque), hole before the 1st / 2nd / 3rd, 4 and 6 slots; every sequence of 1-3 removals; "
                              "add / replace / setter attempts (judged only if the library accepts them)"}, 1)
    return acc


def hole_replay(w, prop, judge):
    acc = hole_removal_shard(prop, judge)
    for v in acc.violations:
        if v["witness"] == w:
            return core.Violation(v["clause"], v["sig"], w, v["detail"])
    return None
