"""C17 - creating or copying a file never clobbers an existing one.

Enumeration: target in {absent, existing TDF, existing non-TDF, existing empty file} x source in
every file state reachable by the container driver K within a small depth x op in {Tdf.new, copy}
x path given as str / pathlib.Path x source object closed / inside a read context / inside a write context / inside a write context right
after it was sized and then changed by a mutation; then every one-operation mutation of the copy (original must
stay) and of the original (copy must stay).  Opening: absent path, empty file, non-TDF file,
truncated signature - refused, never data."""
import os
import pathlib

import numpy as np

from .. import core, env, gen, kdriver, specs
from .. import tdfref as R

PROP = "C17"
RULE = ("[plus Tdf.new as the first creation of a process that has already: serialised the header's numbers as floats / "
        "bools, read the capture, edited a 3-slot file, had a Tdf.new refused - one process each] " +"states = (source file state from K up to depth 2, target kind, operation, path type); per state: refusal with "
        "FileExistsError + target bytes untouched, or well-formed new container / byte-identical independent copy; then "
        "every valid one-op mutation of copy and of original; non-trivial = target exists or source has >= 1 live block")
ASSUMPTIONS = [
    "targets are regular files in a private directory (directories, symlinks, unwritable locations are not enumerated)",
    "source states: BFS depth 2 over 2-3 kinds per configuration (quick) / depth 3 (thorough)",
    "'refused rather than yielding data' for a non-TDF file: any exception on entering a context or on the first read",
]
TARGETS = ("absent", "tdf", "nontdf", "empty")


def make_target(path, kind):
    if os.path.exists(path):
        os.unlink(path)
    if kind == "tdf":
        data = R.build_file(2, [kdriver.known_record(R.T_EVENTS, 1, "precious")])
    elif kind == "nontdf":
        data = b"this is not a TDF file, but it is somebody's data\n" * 3
    elif kind == "empty":
        data = b""
    else:
        return None
    with open(path, "wb") as f:
        f.write(data)
    return data


def read(path):
    with open(path, "rb") as f:
        return f.read()


def new_container_violation(data):
    try:
        p = R.parse_file(data)
    except R.LayoutError as e:
        return f"not parsable: {e}"
    if p["version"] != 1:
        return f"version {p['version']}"
    if p["n"] != 14:
        return f"{p['n']} slots"
    if len(data) != 4096:
        return f"{len(data)} bytes, expected 4096 (header + 14 entries, nothing after)"
    for i, e in enumerate(p["entries"]):
        if e["type"] != 0 or e["size"] != 0 or e["offset"] != 4096:
            return f"slot {i}: type {e['type']} offset {e['offset']} size {e['size']}"
    return None  # (zeroed reserved bytes are C06's subject)


def V(clause, detail, extra=""):
    return core.Violation(clause, f"{PROP}:{clause}{(':' + extra) if extra else ''}", None, detail)


def check_new(directory, tkind, as_path, acc):
    n = specs.lib()
    target = os.path.join(directory, "target.tdf")
    before = make_target(target, tkind)
    arg = pathlib.Path(target) if as_path else target
    try:
        t = n.tdf.Tdf.new(arg)
        err = None
    except Exception as e:  # noqa: BLE001
        t, err = None, e
    acc.n["transitions"] += 1
    if tkind == "absent":
        if err is not None:
            raise V("create-refused", f"Tdf.new on an absent path: {type(err).__name__}: {err}")
        bad = new_container_violation(read(target))
        if bad:
            raise V("new-container-malformed", f"Tdf.new wrote a container that is {bad}")
        if env.open_fds_on(target):
            raise V("descriptor-left-open", "Tdf.new left a descriptor open", "new")
        with t as f:
            if len(f) != 0 or len(f.entries) != 14:
                raise V("new-container-malformed", f"library reads {len(f)} blocks / {len(f.entries)} slots from its own new file")
        return "created"
    if err is None:
        raise V("existing-target-overwritten", f"Tdf.new on an existing {tkind} file returned normally; "
                f"bytes {'changed' if read(target) != before else 'unchanged'}", f"new:{tkind}")
    if not isinstance(err, FileExistsError):
        raise V("wrong-exception", f"Tdf.new on an existing {tkind} file raised {type(err).__name__}, expected FileExistsError", f"new:{tkind}")
    if read(target) != before:
        raise V("existing-target-clobbered", f"Tdf.new raised FileExistsError but the existing {tkind} file changed", f"new:{tkind}")
    return "refused"


def check_copy(cfg, directory, base, model, tkind, as_path, acc, src_mode="closed"):
    """src_mode: copy() called on a Tdf that is closed / inside a read context / inside a write
    context after reading a block (handle positioned somewhere in the file)."""
    n = specs.lib()
    src = os.path.join(directory, "source.tdf")
    target = os.path.join(directory, "target.tdf")
    if os.path.islink(src):
        os.unlink(src)
    if src_mode == "symlink":
        # the source object was opened through a symbolic link: the copy still is a file of its own
        real = os.path.join(directory, "source-real.tdf")
        with open(real, "wb") as f:
            f.write(base)
        if os.path.exists(src):
            os.unlink(src)
        os.symlink(real, src)
    else:
        with open(src, "wb") as f:
            f.write(base)
    before = make_target(target, tkind)
    s = n.tdf.Tdf(src)
    arg = pathlib.Path(target) if as_path else target

    def do_copy():
        try:
            return s.copy(arg), None
        except Exception as e:  # noqa: BLE001
            return None, e

    if src_mode in ("closed", "symlink"):
        c, err = do_copy()
    else:
        if src_mode in ("write", "write-after-op"):
            s.allow_write()
        with s:
            if len(s):
                try:
                    s.get_block(0)
                except Exception:  # noqa: BLE001 - opaque block
                    pass
            if src_mode == "write-after-op":
                # the object is sized / printed, then the file is changed in this very context, then copied:
                # the copy must be the file as it is after that change
                s.nBytes
                repr(s)
                op0 = next((o for o in kdriver.ops_for(cfg, model) if o[0] in ("add", "replace", "remove") and o[-1] != "instance"), None)
                if op0 is not None:
                    exc0 = _MiniSession(s).call(op0)
                    if exc0 is not None:
                        raise core.HarnessError(f"valid op refused while preparing a copy source: {op0}: {exc0}")
            c, err = do_copy()
        if src_mode == "write-after-op":
            base = read(src)  # what the source holds once the context is closed
    acc.n["transitions"] += 1
    if read(src) != base:
        raise V("copy-changed-source", "copy() changed the source file")
    if src_mode == "write-after-op" and tkind != "absent":
        pass
    if tkind != "absent":
        if err is None:
            raise V("existing-target-overwritten", f"copy onto an existing {tkind} file returned normally", f"copy:{tkind}")
        if not isinstance(err, FileExistsError):
            raise V("wrong-exception", f"copy onto an existing {tkind} file raised {type(err).__name__}", f"copy:{tkind}")
        if read(target) != before:
            raise V("existing-target-clobbered", f"copy raised FileExistsError but the existing {tkind} file changed", f"copy:{tkind}")
        return "refused"
    if err is not None:
        raise V("copy-refused", f"copy to an absent path: {type(err).__name__}: {err}")
    if read(target) != base:
        raise V("copy-not-identical", f"copy has {len(read(target))} bytes / differs from the {len(base)}-byte original")
    if os.stat(target).st_ino == os.stat(src).st_ino or os.path.islink(target):
        raise V("copy-not-independent", "copy and original are the same inode / a link")
    if os.path.realpath(str(c.file_path)) != os.path.realpath(target):
        raise V("copy-wrong-object", f"copy() returned an object on {c.file_path}")
    if env.open_fds_on(target) or env.open_fds_on(src):
        raise V("descriptor-left-open", "copy left a descriptor open", "copy")
    # one-op mutations of either side must not show on the other
    ops = [o for o in kdriver.ops_for(cfg, model) if o[0] != "reopen" and not (o[0] == "remove" and o[2] == "instance")]
    for side in ("copy", "original"):
        for op in ops:
            with open(src, "wb") as f:
                f.write(base)
            with open(target, "wb") as f:
                f.write(base)
            victim, other = (target, src) if side == "copy" else (src, target)
            obj = n.tdf.Tdf(victim)
            obj.allow_write()
            with obj:
                sess = _MiniSession(obj)
                exc = sess.call(op)
            acc.n["transitions"] += 1
            if exc is None and read(victim) == base and op[0] != "reopen":
                # idempotent request (e.g. replacing by the same content within the same second) - fine
                pass
            if read(other) != base:
                raise V("copy-not-independent", f"{kdriver.op_str(op)} on the {side} changed the other file", side)
    return "copied"


class _MiniSession(kdriver.Session):
    def __init__(self, tdf):  # noqa: super-init-not-called - reuse Session.call on an existing open object
        self.tdf = tdf
        self.entered = True


def check_open(directory, acc):
    n = specs.lib()
    out = 0
    cases = {"absent": None, "empty": b"", "nontdf": b"x" * 5000, "short-signature": R.SIGNATURE[:10],
             "wrong-signature": bytes(16) + R.build_file(2, [])[16:],
             "signature-only": R.SIGNATURE}
    whole = R.build_file(2, [kdriver.known_record(R.T_EVENTS, 0)])
    for k in range(16):     # a well-formed file except for one byte of the 16-byte signature
        cases[f"sig-byte-{k}"] = whole[:k] + bytes([whole[k] ^ 0x5A]) + whole[k + 1:]
    for name, data in cases.items():
        path = os.path.join(directory, "open.tdf")
        if os.path.exists(path):
            os.unlink(path)
        if data is not None:
            with open(path, "wb") as f:
                f.write(data)
        acc.n["states"] += 1
        acc.n["evaluations"] += 1
        acc.n["nontrivial"] += 1
        acc.n["transitions"] += 1
        wit = {"open": name}
        try:
            t = n.tdf.Tdf(path)
            err = None
        except Exception as e:  # noqa: BLE001
            t, err = None, e
        if name == "absent":
            if not isinstance(err, FileNotFoundError):
                acc.violation("absent-path-opened", f"{PROP}:absent-path-opened", wit,
                              f"Tdf(absent path): {'no exception' if err is None else type(err).__name__}")
            else:
                acc.outcomes["open:absent:refused"] += 1
                acc.n["traces"] += 1
            continue
        got = None
        if err is None:
            for what, fn in (("enter", lambda: t.__enter__()), ("blocks", lambda: t.blocks), ("len", lambda: len(t)),
                             ("has_events", lambda: t.has_events)):
                try:
                    r = fn()
                    if name == "signature-only" and what == "enter":
                        continue
                    got = (what, r)
                    break
                except Exception:  # noqa: BLE001
                    pass
            h = getattr(t, "handler", None)
            if h is not None and not h.closed:
                h.close()
        if (name in ("empty", "nontdf", "short-signature", "wrong-signature") or name.startswith("sig-byte")) and got is not None:
            acc.violation("non-tdf-yields-data", f"{PROP}:non-tdf-yields-data:{name.rstrip('0123456789')}", wit, f"{name} file: {got[0]} returned {got[1]!r:.60}")
        elif data is not None and read(path) != data:
            acc.violation("open-changed-file", f"{PROP}:open-changed-file:{name}", wit, name)
        else:
            acc.outcomes[f"open:{name}:refused"] += 1
            acc.n["traces"] += 1
        out += 1
    # a Tdf object made for a valid file; the file is then replaced by something that is not a TDF
    for name, data in (("replaced-by-nontdf", b"y" * 16 + R.build_file(2, [kdriver.known_record(R.T_EVENTS, 0)])[16:]),
                       ("replaced-by-empty", b"")):
        path = os.path.join(directory, "swap.tdf")
        with open(path, "wb") as f:
            f.write(R.build_file(2, [kdriver.known_record(R.T_EVENTS, 0)]))
        t = n.tdf.Tdf(path)
        with t:
            pass
        with open(path, "wb") as f:
            f.write(data)
        acc.n["states"] += 1
        acc.n["evaluations"] += 1
        acc.n["nontrivial"] += 1
        acc.n["transitions"] += 1
        got = None
        for what, fn in (("enter", lambda: t.__enter__()), ("blocks", lambda: t.blocks), ("has_events", lambda: t.has_events)):
            try:
                got = (what, fn())
                break
            except Exception:  # noqa: BLE001
                pass
        h = getattr(t, "handler", None)
        if h is not None and not h.closed:
            h.close()
        if got is not None:
            acc.violation("non-tdf-yields-data", f"{PROP}:non-tdf-yields-data:{name}", {"open": name},
                          f"a Tdf object whose file was {name}: {got[0]} returned {got[1]!r:.60}")
        else:
            acc.outcomes[f"open:{name}:refused"] += 1
            acc.n["traces"] += 1
    acc.sample({"open": list(cases) + ["replaced-by-nontdf", "replaced-by-empty"]}, 1)


ACTIVITIES = ("numbers", "capture", "small-table", "failed-new")


def _activity(name, directory):
    """Things a process may have done with the library before it creates its first file."""
    n = specs.lib()
    if name == "numbers":
        # the numbers Tdf.new writes into a header and an empty table (1, 14, 4096, 0, 64, 288, 4), met
        # before as floats, ints, bools and numpy scalars in other fields
        for v in (1.0, 14.0, 4096.0, 0.0, 64.0, 288.0, 4.0, True, False):
            sp = gen.events([gen.mk_event("e", 1, 2)], startTime=np.float32(v))
            sp["events"][0]["values"][:] = np.float32(v)
            specs.lib_decode(sp["type"], sp["format"], specs.lib_encode(specs.build(sp)))
        for f in (1, 14, 4096, 64, 288):
            sp = gen.emg(3, [(f % 32768, gen.mk_emgsig(3, (True, False, True), "s"))], frequency=f)
            specs.lib_encode(specs.build(sp))
            specs.lib_encode(specs.build(gen.data3d(f if f < 100 else 3, [], frequency=f, startTime=np.float32(f))))
    elif name == "capture":
        with n.tdf.Tdf(env.CAPTURE) as f:
            for b in f.blocks:
                b.nBytes
    elif name == "small-table":
        p = os.path.join(directory, "small.tdf")
        with open(p, "wb") as f:
            f.write(R.build_file(3, [kdriver.known_record(R.T_EVENTS, 0)]))
        with n.tdf.Tdf(p).allow_write() as f:
            f.add_block(kdriver.make_block(R.T_EMG, 0))
            f.remove_block(n.block.BlockType(R.T_EVENTS))
        os.unlink(p)
    elif name == "failed-new":
        p = os.path.join(directory, "there.tdf")
        make_target(p, "tdf")
        try:
            n.tdf.Tdf.new(p)
        except Exception:  # noqa: BLE001
            pass
        os.unlink(p)
    else:
        raise ValueError(name)


def _activity_shard(name):
    """Each activity runs in a process of its own (every shard does), so the Tdf.new that follows is the
    first one after it."""
    acc = core.Acc()
    directory = env.scratch_dir("c17a")
    _activity(name, directory)
    for as_path in (False, True):
        acc.n["states"] += 1
        acc.n["evaluations"] += 1
        acc.n["nontrivial"] += 1
        try:
            acc.outcomes[f"new-after:{name}:{check_new(directory, 'absent', as_path, acc)}"] += 1
            acc.n["traces"] += 1
        except core.Violation as v:
            acc.violation(v.clause, v.sig + ":after-" + name, {"new": "absent", "as_path": as_path, "after": name}, v.detail + f" [process had done: {name}]")
    acc.sample({"Tdf.new after earlier library activity in the same process": name}, 1)
    return acc


def _shard(cfg_w):
    if isinstance(cfg_w, tuple) and cfg_w[0] == "after":
        return _activity_shard(cfg_w[1])
    acc = core.Acc()
    directory = env.scratch_dir("c17")
    if cfg_w == "open":
        check_open(directory, acc)
        for tkind in TARGETS:
            for as_path in (False, True):
                acc.n["states"] += 1
                acc.n["evaluations"] += 1
                if tkind != "absent":
                    acc.n["nontrivial"] += 1
                try:
                    acc.outcomes[f"new:{tkind}:{check_new(directory, tkind, as_path, acc)}"] += 1
                    acc.n["traces"] += 1
                except core.Violation as v:
                    acc.violation(v.clause, v.sig, {"new": tkind, "as_path": as_path}, v.detail)
        acc.sample({"Tdf.new targets": list(TARGETS), "path types": ["str", "Path"]}, 1)
        return acc
    cfg = kdriver.Config.from_witness(cfg_w)
    done = set()

    def observe(sess, hist, op, exc, valid, reason, pre, acc_):
        if exc is not None:
            return
        k = kdriver.canon(sess)
        if k in done:
            return
        done.add(k)
        base = sess.disk()
        model = kdriver.copy_model(sess.model)
        for tkind in TARGETS:
            for as_path in ((False, True) if tkind != "absent" or not hist else (False,)):
                acc_.n["evaluations"] += 1
                if tkind != "absent" or model.live:
                    acc_.n["nontrivial"] += 1
                wit = {"config": cfg.to_witness(), "base": base.hex(), "target": tkind, "as_path": as_path,
                       "base_model": specs.dump([(r.type, r.format, r.payload, r.comment, r.ctime, r.mtime) for r in model.live.values()]),
                       "history": [kdriver.op_str(o) for o in hist]}
                for src_mode in ("closed", "read", "write", "write-after-op", "symlink"):
                    if src_mode != "closed" and as_path:
                        continue
                    wit2 = dict(wit, src_mode=src_mode)
                    try:
                        out = check_copy(cfg, directory, base, model, tkind, as_path, acc_, src_mode)
                        acc_.outcomes[f"copy:{tkind}:{src_mode}:{out}"] += 1
                        acc_.n["traces"] += 1
                    except core.Violation as v:
                        acc_.violation(v.clause, v.sig + (":" + src_mode if src_mode != "closed" else ""), wit2,
                                       f"source ({src_mode}) after {[kdriver.op_str(o) for o in hist]}: {v.detail}")

    kdriver.explore(cfg, observe, acc)
    return acc


def configs(tier):
    K = kdriver
    tr = env.rotate(K.TRIPLES)
    d = 2 if tier == "quick" else 3
    out = [K.Config("N2-T3", 2, [], tr[0], 1, depth=d), K.Config("N3-opaque", 3, [K.opaque_record(0)], tr[1][:2], 1, depth=d, junk=True),
           K.Config("N14-new", 14, "new", tr[2][:2], 1, depth=d)]
    out.append(K.Config("N3-big", 3, [K.big_record()], (R.T_EVENTS,), 1, depth=1))   # a source of ~840 KB (not a multiple of 64 KB)
    if tier == "thorough":
        out += [K.Config(f"N3-T3-{i}", 3, [], t3, 2, depth=3) for i, t3 in enumerate(tr)]
    return out


def run(tier):
    return core.pmap(__name__, "_shard", ["open"] + [("after", a) for a in ACTIVITIES] + [c.to_witness() for c in configs(tier)])


def replay(w):
    directory = env.scratch_dir("c17r")
    acc = core.Acc()
    try:
        if "open" in w:
            check_open(directory, acc)
            for v in acc.violations:
                if v["witness"] == w:
                    return core.Violation(v["clause"], v["sig"], w, v["detail"])
            return None
        if "new" in w:
            if w.get("after"):
                _activity(w["after"], directory)
            check_new(directory, w["new"], w["as_path"], acc)
            return None
        cfg = kdriver.Config.from_witness(w["config"])
        model = kdriver.Model(14 if cfg.init == "new" else cfg.n, [kdriver.Rec(*r) for r in specs.load(w["base_model"])])
        check_copy(cfg, directory, bytes.fromhex(w["base"]), model, w["target"], w["as_path"], acc, w.get("src_mode", "closed"))
    except core.Violation as v:
        return v
    return None
