"""C07 - a rejected mutation leaves the file exactly as it was.

Fault enumeration on top of the container driver K.  For every reachable file state (BFS over
the valid operations) and every applicable rejection cause - duplicate kind, full table, absent
kind, label too long / not cp1252 at the first, middle or last item, unsupported format, a bare int as
format, a block date beyond the 32-bit date field, wrong object, comment too long / not cp1252, an unused slot between live blocks - through add_block,
replace_block and every setter, the failing call is executed (one failing call per history; two in
thorough).  Oracle: if it raises, sha256(file) is unchanged, the in-memory table equals the disk
table, and every continuation op yields the same canonical state as on the twin history without
the failed call."""
import hashlib

import numpy as np

from .. import core, env, gen, kdriver, specs
from .. import tdfref as R
from . import kcommon

PROP = "C07"
RULE = ("states = reachable file states (BFS over valid ops, small configurations) ; in each, every rejection cause x "
        "API (add / replace / 5 setters / remove) x position of the bad element (first, middle, last) is executed; "
        "oracle: sha256 unchanged, memory table == disk table, 5-op differential continuation vs. the twin history; "
        "non-trivial = failing call issued in a state with >= 1 live block")
ASSUMPTIONS = [
    "a call that does *not* raise is outside this property (it is counted as 'accepted'; C11/C13 decide those)",
    "continuation menu: retry with a valid block of the same kind, add another kind, remove / replace the first live "
    "block, leave-and-re-enter the context; depth 1 (thorough: also a second failing call before the continuation)",
    "unsupported formats are those the writers refuse: Data3D byFrame*, EMG byFrame, force/torque byFrame*, platform "
    "data != byTrackISS, Data2D RTS/SYNC",
]
LONG = "L" * 300
NONCP = "label-Ā"
CAUSES_LABEL = ("label_long", "label_noncp")
LABELLED = (R.T_EVENTS, R.T_DATA3D, R.T_EMG, R.T_FORCE3D, R.T_PLATCAL, R.T_OPT)
BADFORMAT = {R.T_DATA3D: 3, R.T_EMG: 2, R.T_FORCE3D: 2, R.T_PLATDATA: 2, R.T_DATA2D: 1}


def bad_block(t, cause, pos):
    """A block of kind t that cannot be written; three items, the bad one at `pos`."""
    g = gen
    T = (True, True)
    if cause in CAUSES_LABEL:
        labels = ["ok0", "ok1", "ok2"]
        labels[pos] = LONG if cause == "label_long" else NONCP
        if t == R.T_EVENTS:
            sp = g.events([g.mk_event(l, 1, 2, i) for i, l in enumerate(labels)])
        elif t == R.T_DATA3D:
            sp = g.data3d(2, [g.mk_track3d(2, T, l, i) for i, l in enumerate(labels)])
        elif t == R.T_EMG:
            sp = g.emg(2, [(i, g.mk_emgsig(2, T, l, i)) for i, l in enumerate(labels)])
        elif t == R.T_FORCE3D:
            sp = g.force3d(2, [g.mk_ftrack(2, T, l, i) for i, l in enumerate(labels)])
        elif t == R.T_PLATCAL:
            sp = g.platcal([(i, g.mk_platinfo(l, i)) for i, l in enumerate(labels)])
        elif t == R.T_OPT:
            labels = [l if not l.startswith("L") else "L" * 40 for l in labels]
            sp = g.optical([g.mk_chan(i, name=l) for i, l in enumerate(labels)])
        else:
            raise ValueError(t)
        return specs.build(sp)
    if cause in ("twin_long", "twin_noncp"):
        # the stored payload variant (0 or 1, chosen by pos) with ONE label made unwritable, the last one: same item
        # count, same sizes - a replacement that takes an "equal size" shortcut meets exactly this block
        import copy

        sp = copy.deepcopy(kdriver.variant(t, pos)[0])
        key = {R.T_OPT: "name"}.get(t, "label")
        for k in ("tracks", "items", "channels", "events"):
            if k in sp and sp[k]:
                it = sp[k][-1]
                d = it[1] if isinstance(it, tuple) else it
                d[key] = ("L" * (40 if t == R.T_OPT else 300)) if cause == "twin_long" else NONCP
                break
        else:
            raise ValueError("no labelled item")
        return specs.build(sp)
    if cause == "format":
        sp, _, _, _ = kdriver.variant(t, 0)
        b = specs.build(sp)
        b.format = specs.format_enum(t)(BADFORMAT[t])
        return b
    if cause == "format_raw":
        b = kdriver.make_block(t, 1)
        b.format = int(b.format.value)
        return b
    if cause == "date_range":
        import datetime

        b = kdriver.make_block(t, 1)
        setattr(b, ("creation_date", "last_modification_date")[pos], datetime.datetime(2040, 2, 3, 4, 5, 6))
        return b
    raise ValueError(cause)


def fault_ops(cfg, model):
    """Failing requests applicable in this model state."""
    out = []
    live = set(model.live)
    full = len(model.live) >= model.n
    # a request that would have to rewrite an entry that cannot be written back (foreign comment without terminator
    # behind the block in question): may be refused, and then nothing may have changed
    for t in list(model.live):
        if model.valid(("remove", t, "type"))[1] == "bystander-comment-unstorable":
            out.append(("remove", t, "type"))
            if t in cfg.types:
                out.append(("replace", t, 0, 0))
                if t in kdriver.SETTERS:
                    out.append(("set", t, 0))
    for t in cfg.types:
        present = t in live
        # early rejections
        if present:
            out.append(("add", t, 0, 0))                          # duplicate kind
        elif full:
            out.append(("add", t, 0, 0))                          # table full
            if t in kdriver.SETTERS:
                out.append(("set", t, 0))                         # setter on a full table
        if present and len(model.live[t].comment) > 255:          # foreign entry whose comment has no terminator
            out.append(("replace", t, 0, 0))                      # would inherit a comment that cannot be written
            if t in kdriver.SETTERS:
                out.append(("set", t, 0))
        if not present:
            out.append(("remove", t, "type"))                     # absent kind
            out.append(("replace", t, 0, 0))
        # late rejections: the block / comment cannot be encoded
        apis = []
        if not present and not full:
            apis.append("add")
        if present:
            apis.append("replace")
        if t in kdriver.SETTERS and (present or not full):
            apis.append("set")
        for api in apis:
            if t in LABELLED:
                for cause in CAUSES_LABEL:
                    for pos in (0, 1, 2):
                        out.append(("bad", api, t, cause, pos))
            if t in LABELLED and api != "add":
                for v in (0, 1):
                    for cause in ("twin_long", "twin_noncp"):
                        out.append(("bad", api, t, cause, v))
            if t in BADFORMAT:
                out.append(("bad", api, t, "format", 0))
            out.append(("bad", api, t, "format_raw", 0))           # a bare int where a format enum member belongs
            for pos in (0, 1):
                out.append(("bad", api, t, "date_range", pos))     # creation / modification date beyond the 32-bit field
            if api != "set":
                out.append(("bad", api, t, "comment_long", 0))
                out.append(("bad", api, t, "comment_noncp", 0))
        if not present and not full:
            out.append(("bad", "add", t, "wrong_str", 0))
            out.append(("bad", "add", t, "wrong_object", 0))
    return out


def call_fault(sess, op):
    """Execute a ("bad", api, t, cause, pos) request on the real object -> exception or None"""
    _, api, t, cause, pos = op
    tdf = sess.tdf
    try:
        if cause in ("wrong_str", "wrong_object"):
            tdf.add_block("not a block" if cause == "wrong_str" else object())
            return None
        if cause in ("comment_long", "comment_noncp"):
            blk = kdriver.make_block(t, 1)
            comment = "c" * 256 if cause == "comment_long" else "comment 中"
            (tdf.add_block if api == "add" else tdf.replace_block)(blk, comment)
            return None
        blk = bad_block(t, cause, pos)
        if api == "add":
            tdf.add_block(blk)
        elif api == "replace":
            tdf.replace_block(blk)
        else:
            setattr(tdf, kdriver.SETTERS[t], blk)
    except Exception as e:  # noqa: BLE001
        return e
    return None


def op_name(op):
    if op[0] == "bad":
        return f"{op[1]}({R.NAMES[op[2]]}: {op[3]}@{op[4]})"
    return kdriver.op_str(op)


def masked(k):
    """canon() without nothing extra - dates derived from now() are already masked there."""
    return k


def continuation_menu(cfg, model, failed_type):
    menu = []
    if failed_type in cfg.types:
        v = ("add", failed_type, 1, 1) if failed_type not in model.live else ("replace", failed_type, 1, 1)
        menu.append(v)
    for t in cfg.types:
        if t != failed_type and t not in model.live and len(model.live) < model.n:
            menu.append(("add", t, 0, 0))
            break
    if model.live:
        first = next(iter(model.live))
        if cfg.removable is None or first in cfg.types or first in cfg.removable:
            menu.append(("remove", first, "type"))
        if first in cfg.types:
            menu.append(("replace", first, 0, 0))
    menu.append(("reopen",))
    return [m for m in menu if m[0] == "reopen" or model.valid(m)[0]]


def do(sess, op):
    return call_fault(sess, op) if op[0] == "bad" else sess.call(op)


def check_fault(cfg, directory, base, base_model, fop, acc, second=None):
    """Run the failing call `fop` (optionally a second failing call) on the state `base`.
    -> outcome tag; raises core.Violation."""
    sess = kdriver.Session(cfg, directory, data=base)
    try:
        sess.model = kdriver.copy_model(base_model)
        where = f"in state {[R.NAMES[t] for t in base_model.live]} of {base_model.n} slots"
        failing = [fop] + ([second] if second else [])
        for f in failing:
            before = sess.disk()
            exc = do(sess, f)
            acc.n["transitions"] += 1
            cause = f[3] if f[0] == "bad" else ("invalid-" + base_model.valid(f)[1])
            api = f[1] if f[0] == "bad" else f[0]
            if exc is None:
                return f"accepted:{cause}"
            after = sess.disk()
            if hashlib.sha256(before).digest() != hashlib.sha256(after).digest():
                i = next((i for i, (x, y) in enumerate(zip(before, after)) if x != y), min(len(before), len(after)))
                lost = ""
                try:
                    pa = R.parse_file(after)
                    pb = R.parse_file(before)
                    gone = sorted({e["type"] for e in pb["entries"]} - {e["type"] for e in pa["entries"]})
                    if gone:
                        lost = f"; block(s) lost: {[R.NAMES[t] for t in gone]}"
                except R.LayoutError:
                    lost = "; file no longer parses"
                raise core.Violation("file-changed-by-rejected-call", f"{PROP}:file-changed:{api}:{cause}:N{cfg.n}", None,
                                     f"{op_name(f)} {where} raised {type(exc).__name__} but the file changed "
                                     f"({len(before)} -> {len(after)} bytes, first difference at {i}){lost}")
            try:
                mem = [m[:7] if m[0] else m[:4] for m in sess.mem_entries()]
                disk = [d[:7] if d[0] else d[:4] for d in kdriver.disk_entries(R.parse_file(after))]
            except Exception as e:  # noqa: BLE001
                raise core.Violation("memory-table-broken", f"{PROP}:memory-table:{api}:{cause}:N{cfg.n}", None,
                                     f"{op_name(f)} {where}: in-memory table unreadable afterwards: {type(e).__name__}: {e}")
            if mem != disk:
                k = next(i for i, (a, b) in enumerate(zip(mem, disk)) if a != b) if len(mem) == len(disk) else -1
                raise core.Violation("memory-table!=disk", f"{PROP}:memory-table:{api}:{cause}:N{cfg.n}", None,
                                     f"{op_name(f)} {where} raised {type(exc).__name__}; in-memory table differs from disk at slot {k}: "
                                     f"{mem[k] if k >= 0 else len(mem)} vs {disk[k] if k >= 0 else len(disk)}")
        # differential continuation on the twin history
        ftype = fop[2] if fop[0] == "bad" else fop[1]
        for cont in continuation_menu(cfg, base_model, ftype):
            a = kdriver.Session(cfg, directory, name="a.tdf", data=base)
            b = kdriver.Session(cfg, directory, name="b.tdf", data=base)
            try:
                for f in failing:
                    do(a, f)
                ea, eb = a.call(cont), b.call(cont)
                acc.n["transitions"] += 2
                acc.n["continuations"] += 1
                ka, kb = kdriver.canon(a), kdriver.canon(b)
                if (ea is None) != (eb is None) or ka != kb:
                    cause = fop[3] if fop[0] == "bad" else ("invalid-" + base_model.valid(fop)[1])
                    raise core.Violation("continuation-differs", f"{PROP}:continuation-differs:{fop[1] if fop[0] == 'bad' else fop[0]}:{cause}:{cont[0]}", None,
                                         f"after the rejected {op_name(fop)} {where}, {kdriver.op_str(cont)} "
                                         f"{'raises ' + type(ea).__name__ if ea else 'succeeds'}; without the rejected call it "
                                         f"{'raises ' + type(eb).__name__ if eb else 'succeeds'}; resulting states "
                                         f"{'equal' if ka == kb else 'differ'}")
            finally:
                a.close()
                b.close()
        cause = fop[3] if fop[0] == "bad" else ("invalid-" + base_model.valid(fop)[1])
        return f"rejected-clean:{cause}"
    finally:
        sess.close()


def _shard(cfg_w):
    cfg = kdriver.Config.from_witness(cfg_w)
    tier = _shard.tier
    acc = core.Acc()
    directory = env.scratch_dir("c07")
    done = set()

    def observe(sess, hist, op, exc, valid, reason, pre, acc_):
        # called for every state reached by valid ops: enumerate the faults here
        if exc is not None:
            return
        k = kdriver.canon(sess)
        if k in done or not kdriver.mem_equals_disk(k):
            return
        done.add(k)
        base = sess.disk()
        model = kdriver.copy_model(sess.model)
        faults = fault_ops(cfg, model)
        for fop in faults:
            seconds = [None]
            if tier == "thorough" and fop[0] == "bad":
                seconds.append(("add", next(iter(model.live)), 0, 0) if model.live else ("remove", cfg.types[0], "type"))
            for second in seconds:
                acc_.n["evaluations"] += 1
                acc_.n["fault_calls"] += 1
                if model.live:
                    acc_.n["nontrivial"] += 1
                wit = {"config": cfg.to_witness(), "base": base.hex(), "fault": list(fop), "second": list(second) if second else None,
                       "base_model": specs.dump([(r.type, r.format, r.payload, r.comment, r.ctime, r.mtime) for r in model.live.values()]),
                       "history": [op_name(o) for o in hist] + [op_name(fop)]}
                try:
                    out = check_fault(cfg, directory, base, model, fop, acc_, second)
                    acc_.outcomes[out] += 1
                    acc_.n["traces"] += 1
                except core.Violation as v:
                    acc_.violation(v.clause, v.sig, wit, v.detail)

    kdriver.explore(cfg, observe, acc, include_invalid=False)
    if cfg.hole_at is None and cfg.n >= 3 and cfg.init != "new" and len(cfg.types) >= 3:
        hole_case(cfg, directory, acc)
    return acc


def hole_case(cfg, directory, acc):
    """Tables with an unused slot between live blocks (only other software writes those): every
    mutation that is refused there must change nothing - add of a third kind, replace / setter / remove
    of the block before and after the hole; hole right after the first block and right before the last
    slot."""
    t1, t2, t3 = cfg.types[:3]
    layouts = []
    for n in sorted({cfg.n, 14}):
        if n < 3:
            continue
        layouts.append((n, [kdriver.known_record(t1, 0), kdriver.known_record(t2, 1)], 1, "middle"))
        layouts.append((n, [kdriver.known_record(t1, 0), kdriver.known_record(t2, 1)], 0, "front"))
        if n > 3:
            # A, unused ..., B in the LAST slot: built by hand from the compact file
            layouts.append((n, [kdriver.known_record(t1, 0), kdriver.known_record(t2, 1)], "last", "last-slot"))
    for n, init, hole, hname in layouts:
        hcfg = kdriver.Config(f"{cfg.name}-hole-{hname}-N{n}", n, init, cfg.types, cfg.nvar, hole_at=hole if hole != "last" else None)
        if hole == "last":
            data = bytearray(hcfg.initial_bytes())
            e1 = bytes(data[R.HEADER + R.ENTRY: R.HEADER + 2 * R.ENTRY])           # entry of B
            eu = bytes(data[R.HEADER + 2 * R.ENTRY: R.HEADER + 3 * R.ENTRY])       # an unused entry
            data[R.HEADER + R.ENTRY: R.HEADER + 2 * R.ENTRY] = eu
            data[R.HEADER + (n - 1) * R.ENTRY: R.HEADER + n * R.ENTRY] = e1
            base = bytes(data)
        else:
            base = hcfg.initial_bytes()
        calls = [("add", t3, 0, 0), ("replace", t1, 1, 1), ("replace", t2, 0, 0), ("remove", t1, "type"), ("remove", t2, "type")]
        calls += [("set", t, 1) for t in (t1, t2, t3) if t in kdriver.SETTERS]
        for call in calls:
            sess = kdriver.Session(hcfg, directory, data=base)
            acc.n["evaluations"] += 1
            acc.n["nontrivial"] += 1
            acc.n["states"] += 1
            wit = {"config": hcfg.to_witness(), "hole": hname, "base": base.hex(), "call": list(call)}
            try:
                before = sess.disk()
                exc = sess.call(call)
                acc.n["transitions"] += 1
                after = sess.disk()
                what = f"{kdriver.op_str(call)} on a {n}-slot table with an unused slot ({hname}) between live blocks"
                if exc is None:
                    acc.outcomes[f"accepted:hole:{call[0]}"] += 1
                elif before != after:
                    lost = ""
                    try:
                        gone = {e["type"] for e in R.parse_file(before)["entries"]} - {e["type"] for e in R.parse_file(after)["entries"]}
                        lost = f"; lost: {[R.NAMES.get(t, t) for t in gone]}" if gone else ""
                    except R.LayoutError:
                        lost = "; file no longer parses"
                    acc.violation("file-changed-by-rejected-call", f"{PROP}:file-changed:{call[0]}:hole-{hname}", wit,
                                  f"{what} raised {type(exc).__name__} but changed the file ({len(before)} -> {len(after)} bytes){lost}")
                else:
                    mem = [m[:4] for m in sess.mem_entries()]
                    disk = [d[:4] for d in kdriver.disk_entries(R.parse_file(after))]
                    if mem != disk:
                        acc.violation("memory-table!=disk", f"{PROP}:memory-table:{call[0]}:hole-{hname}", wit,
                                      f"{what} raised {type(exc).__name__}: in-memory table differs from disk")
                    else:
                        acc.outcomes[f"rejected-clean:hole:{call[0]}"] += 1
                        acc.n["traces"] += 1
            finally:
                sess.close()


def small_configs(tier):
    K = kdriver
    tr = env.rotate(K.TRIPLES)
    out = []
    if tier == "quick":
        out.append(K.Config("N1-T3", 1, [], tr[0], 1))
        out.append(K.Config("N2-T3-a", 2, [], tr[0], 1))
        out.append(K.Config("N2-T3-b", 2, [], tr[1], 1))
        out.append(K.Config("N3-T3-c", 3, [K.opaque_record(0)], tr[2], 1, junk=True, removable=()))
        out.append(K.Config("N3-T3-d", 3, [], (R.T_EVENTS, R.T_EMG, R.T_OPT), 1, depth=2))
        out.append(K.Config("N14-new", 14, "new", (R.T_DATA3D, R.T_FORCE3D), 1, depth=2))
        out.append(K.Config("N3-unterminated", 3, [K.known_record(R.T_EVENTS, 0, unterminated=True), K.opaque_record(2)],
                            (R.T_EVENTS, R.T_EMG), 1, depth=1))
        # ... and the unterminated entry *behind* another block: removing / replacing that one would have to rewrite it
        out.append(K.Config("N4-unterminated-last", 4, [K.known_record(R.T_EMG, 0), K.opaque_record(2), K.known_record(R.T_EVENTS, 0, unterminated=True)],
                            (R.T_EVENTS, R.T_EMG), 1, depth=1))
    else:
        out.append(K.Config("N4-unterminated-last", 4, [K.known_record(R.T_EMG, 0), K.opaque_record(2), K.known_record(R.T_EVENTS, 0, unterminated=True)],
                            (R.T_EVENTS, R.T_EMG, R.T_PLATDATA), 1, depth=2))
        out.append(K.Config("N3-unterminated", 3, [K.known_record(R.T_EVENTS, 0, unterminated=True), K.opaque_record(2)],
                            (R.T_EVENTS, R.T_EMG, R.T_PLATDATA), 1, depth=2))
        for i, t3 in enumerate(tr):
            out.append(K.Config(f"N2-T3-{i}", 2, [], t3, 2))
            out.append(K.Config(f"N3-T3-{i}", 3, [K.opaque_record(i)], t3, 1, junk=True, removable=()))
        out.append(K.Config("N1-T3", 1, [], tr[0], 2))
        out.append(K.Config("N4-T4", 4, [], (R.T_EVENTS, R.T_EMG, R.T_DATA3D, R.T_PLATDATA), 1, depth=3))
        out.append(K.Config("N14-new", 14, "new", (R.T_DATA3D, R.T_FORCE3D, R.T_EVENTS), 1, depth=3))
        f11 = K._filler11()
        out.append(K.Config("N14-11live", 14, f11, (R.T_EVENTS, R.T_EMG, R.T_DATA3D), 1, junk=True, removable=(f11[0]["type"],)))
    return out


def run(tier):
    _shard.tier = tier
    return core.pmap(__name__, "_shard", [c.to_witness() for c in small_configs(tier)])


def replay(w):
    cfg = kdriver.Config.from_witness(w["config"])
    directory = env.scratch_dir("c07r")
    acc = core.Acc()
    if w.get("hole"):
        sess = kdriver.Session(cfg, directory, data=bytes.fromhex(w["base"]))
        try:
            before = sess.disk()
            exc = sess.call(tuple(w["call"]))
            after = sess.disk()
            if exc is not None and before != after:
                return core.Violation("file-changed-by-rejected-call", "replayed", w, "file changed by a rejected call")
            if exc is not None and [m[:4] for m in sess.mem_entries()] != [d[:4] for d in kdriver.disk_entries(R.parse_file(after))]:
                return core.Violation("memory-table!=disk", "replayed", w, "memory table differs from disk")
        finally:
            sess.close()
        return None
    model = kdriver.Model(14 if cfg.init == "new" else cfg.n, [kdriver.Rec(*r) for r in specs.load(w["base_model"])])
    try:
        check_fault(cfg, directory, bytes.fromhex(w["base"]), model, tuple(w["fault"]), acc, tuple(w["second"]) if w.get("second") else None)
    except core.Violation as v:
        return v
    return None
