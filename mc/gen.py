"""Alphabets and the builder state machine B: enumerates *valid* block specs.

Nothing here is sampled.  VERIF_SEED only rotates filler values (which finite floats fill
sample arrays, which letters fill labels); every enumerated dimension is complete."""
import itertools

import numpy as np

from . import env
from . import tdfref as R

# --------------------------------------------------------------------------- alphabets
_F32_BITS = [0x00000000, 0x80000000, 0x3F800000, 0xC0200000, 0x00000001, 0x007FFFFF, 0x7F7FFFFF, 0xFF7FFFFF]
F32 = [np.array([b], "<u4").view("<f4")[0] for b in _F32_BITS]  # +0 -0 1 -2.5 denorm_min denorm_max max -max
_F64_BITS = [0x0, 0x8000000000000000, 0x3FF0000000000000, 0xC004000000000000, 0x1, 0x000FFFFFFFFFFFFF,
             0x7FEFFFFFFFFFFFFF, 0xFFEFFFFFFFFFFFFF, 0x3FB999999999999A]
F64 = [np.array([b], "<u8").view("<f8")[0] for b in _F64_BITS]
# values that are ordinary numbers wherever a float is not a sample of a run-length coded item (there NaN means
# "missing" and the library treats inf in the first component as missing too, see DESIGN.md section 5):
# +-inf, the default quiet NaN, a quiet NaN with payload (no signalling NaN: scalars travel through Python
# floats, and the float32 -> float64 -> float32 conversion of the hardware quiets them - not the library's doing)
_F32X_BITS = [0x7F800000, 0xFF800000, 0x7FC00000, 0xFFC00001]
F32X = [np.array([b], "<u4").view("<f4")[0] for b in _F32X_BITS]
_F64X_BITS = [0x7FF0000000000000, 0xFFF0000000000000, 0x7FF8000000000000, 0xFFF8000000000001]
F64X = [np.array([b], "<u8").view("<f8")[0] for b in _F64X_BITS]
MEM_LAYOUTS = ("fortran", "bigendian", "strided", "readonly")
LABELS = ["", "a", "A", " a", "a ", "é€ß", "x" * 255]
LABELS32 = ["", "a", "A", " a", "a ", "é€ß", "y" * 31]
INT_FREQ = [0, 1, 100, 2 ** 31 - 1]
INT_CHAN = [0, 1, 5, 32767]
# full range of the on-disk type where reader and writer use the same one (u16 for platform data,
# i16 for EMG / platform calibration / camera calibration); Data2D writes i16 and reads u16: 0..32767
CHAN_BY_KIND = {R.T_PLATDATA: [0, 1, 5, 32767, 32768, 40000, 65535], R.T_EMG: [0, 1, 5, 32767, -1, -32768]}
INT_CHAN_I16 = [0, 1, 5, 32767, -1, -32768]
INT_I32 = [0, 1, -1, 2 ** 31 - 1, -(2 ** 31)]


def filler(shape, salt, dtype="<f4"):
    """Deterministic, pairwise distinct, finite, non-integer-free values; exactly
    representable in float32 (multiples of 1/8 below 2^20)."""
    n = int(np.prod(shape)) if shape != () else 1
    base = (salt * 131 + env.SEED * 17) % 4093
    v = (np.arange(n, dtype=np.float64) + base) * 0.125 + 0.5
    v[1::3] *= -1
    return v.reshape(shape).astype(dtype)


def all_masks(n):
    return list(itertools.product((True, False), repeat=n))


def two_run_masks(n, maxruns=2):
    """Every mask over n frames with at most `maxruns` (1 or 2) runs of present frames."""
    out = {tuple([False] * n)}
    for a in range(n):
        for b in range(a + 1, n + 1):
            m = [False] * n
            for i in range(a, b):
                m[i] = True
            out.add(tuple(m))
            if maxruns < 2:
                continue
            for c in range(b + 1, n):
                for d in range(c + 1, n + 1):
                    m2 = list(m)
                    for i in range(c, d):
                        m2[i] = True
                    out.add(tuple(m2))
    return sorted(out, reverse=True)


def mask_rows(a, mask):
    a = np.array(a, copy=True)
    for i, p in enumerate(mask):
        if not p:
            a[i] = np.nan
    return a


GEOM = dict(vol=np.array([4.0, 1.75, 1.5], "<f4"),
            rot=np.array([[1, 0, 0], [0, 0.5, -0.25], [0, 0.25, 0.5]], "<f4"),
            trans=np.array([-1.125, 0.0625, -0.5], "<f4"))


def geom(salt=0):
    if salt == 0:
        return {k: v.copy() for k, v in GEOM.items()}
    return dict(vol=filler((3,), salt), rot=filler((3, 3), salt + 1), trans=filler((3,), salt + 2))


# --------------------------------------------------------------------------- item makers
def mk_track3d(n, mask, label="t", salt=0):
    return {"label": label, "data": mask_rows(filler((n, 3), salt), mask)}


def mk_emgsig(n, mask, label="s", salt=0):
    return {"label": label, "data": mask_rows(filler((n,), salt), mask)}


def mk_ftrack(n, mask, label="f", salt=0):
    return {"label": label, "ap": mask_rows(filler((n, 3), salt), mask),
            "force": mask_rows(filler((n, 3), salt + 7), mask), "torque": mask_rows(filler((n, 3), salt + 13), mask)}


def mk_plat(n, mask, salt=0):
    return {"ap": mask_rows(filler((n, 2), salt), mask), "force": mask_rows(filler((n, 3), salt + 7), mask),
            "torque": mask_rows(filler((n,), salt + 13), mask)}


def mk_platinfo(label="p", salt=0):
    return {"label": label, "size": filler((2,), salt), "position": filler((4, 3), salt + 3)}


def mk_cam(fmt, salt=0):
    c = {"R": filler((3, 3), salt, "<f8"), "T": filler((3,), salt + 1, "<f8"), "focus": filler((2,), salt + 2, "<f8"),
         "center": filler((2,), salt + 3, "<f8")}
    if fmt == 1:
        c.update(radial=filler((2,), salt + 4, "<f8"), decentering=filler((2,), salt + 5, "<f8"),
                 thin=filler((2,), salt + 6, "<f8"))
    else:
        c.update(xd=filler((70,), salt + 4, "<f8"), yd=filler((70,), salt + 5, "<f8"))
    c.update(origin=np.array([salt, salt + 1], "<i4"), size=np.array([640 + salt, 480], "<i4"))
    return c


def mk_chan(salt=0, lens="lens", ctype="type", name="cam"):
    return {"index": salt, "lens": lens, "ctype": ctype, "name": name,
            "origin": np.array([salt, 2 * salt + 1], "<i4"), "size": np.array([640, 480 + salt], "<i4")}


def mk_event(label="e", etype=1, k=2, salt=0):
    return {"label": label, "etype": etype, "values": filler((k,), salt)}


# --------------------------------------------------------------------------- block makers
def data3d(n, tracks, fmt=1, links=None, **kw):
    sp = {"type": R.T_DATA3D, "format": fmt, "nFrames": n, "frequency": 100, "startTime": np.float32(0.5),
          "flags": 0, "tracks": tracks, **geom()}
    if fmt == 1:
        sp["links"] = links if links is not None else []
    sp.update(kw)
    return sp


def emg(n, items, **kw):
    sp = {"type": R.T_EMG, "format": 1, "frequency": 1000, "startTime": np.float32(0.25), "nSamples": n, "items": items}
    sp.update(kw)
    return sp


def force3d(n, tracks, **kw):
    sp = {"type": R.T_FORCE3D, "format": 1, "nFrames": n, "frequency": 200, "startTime": np.float32(1.5),
          "tracks": tracks, **geom()}
    sp.update(kw)
    return sp


def platdata(n, items, **kw):
    sp = {"type": R.T_PLATDATA, "format": 1, "nFrames": n, "frequency": 800, "startTime": np.float32(2.5), "items": items}
    sp.update(kw)
    return sp


def platcal(items, **kw):
    sp = {"type": R.T_PLATCAL, "format": 2, "items": items}
    sp.update(kw)
    return sp


def data2d(ncams, nframes, cells, cmap=None, **kw):
    sp = {"type": R.T_DATA2D, "format": 2, "nCams": ncams, "nFrames": nframes, "frequency": 100,
          "startTime": np.float32(0.75), "flags": 0,
          "map": np.array(cmap if cmap is not None else list(range(ncams)), "<u2"), "cells": cells}
    sp.update(kw)
    return sp


def calib(fmt, cams, cmap=None, **kw):
    sp = {"type": R.T_CALIB, "format": fmt, "model": 3, "cams": cams,
          "map": np.array(cmap if cmap is not None else list(range(len(cams))), "<i2"), **geom()}
    sp.update(kw)
    return sp


def optical(chans, **kw):
    sp = {"type": R.T_OPT, "format": 1, "channels": chans}
    sp.update(kw)
    return sp


def events(evs, **kw):
    sp = {"type": R.T_EVENTS, "format": 1, "startTime": np.float32(0.125), "events": evs}
    sp.update(kw)
    return sp


RLE_TYPES = (R.T_DATA3D, R.T_EMG, R.T_FORCE3D, R.T_PLATDATA)


def big_mask(n=70000):
    """Present everywhere except two short gaps, one of them beyond frame 65 536 (start frames and
    run lengths that do not fit 16 bits)."""
    m = np.ones(n, bool)
    m[3:5] = False
    m[66000:66010] = False
    return tuple(m.tolist())


def rle_block(t, n, masks, labels=None, chans=None):
    """A block of run-length coded kind `t` with one item per mask."""
    labels = labels or [f"L{i}" for i in range(len(masks))]
    chans = chans or list(range(len(masks)))
    if t == R.T_DATA3D:
        return data3d(n, [mk_track3d(n, m, labels[i], 10 * i) for i, m in enumerate(masks)])
    if t == R.T_EMG:
        return emg(n, [(chans[i], mk_emgsig(n, m, labels[i], 10 * i)) for i, m in enumerate(masks)])
    if t == R.T_FORCE3D:
        return force3d(n, [mk_ftrack(n, m, labels[i], 10 * i) for i, m in enumerate(masks)])
    if t == R.T_PLATDATA:
        return platdata(n, [(chans[i], mk_plat(n, m, 10 * i)) for i, m in enumerate(masks)])
    raise ValueError(t)


def cells_grid(nframes, ncams, kinds):
    """kinds: flat tuple over frame-major cells, each 0 (None), 1 point or 3 points."""
    cells = []
    it = iter(kinds)
    for fr in range(nframes):
        row = []
        for c in range(ncams):
            k = next(it)
            row.append(None if k == 0 else filler((k, 2), 5 * fr + c))
        cells.append(row)
    return cells


# --------------------------------------------------------------------------- families
def family(t, tier):
    """Yield (tag, spec, build options) for every builder state of block kind `t`.
    The union over tags is the shape space described in DESIGN.md section 3."""
    thorough = tier == "thorough"
    F_single = 11 if thorough else 8
    F_multi = 4 if thorough else 3
    opts0 = {}
    if t in RLE_TYPES:
        # (1) single item, every mask of every length
        for n in range(1, F_single + 1):
            for m in all_masks(n):
                yield (f"mask/n{n}", rle_block(t, n, [m]), opts0)
        # (2) two items, independent masks; three items for n <= 2
        for n in range(1, F_multi + 1):
            for m1 in all_masks(n):
                for m2 in all_masks(n):
                    yield (f"mask2/n{n}", rle_block(t, n, [m1, m2], chans=[5, 1]), opts0)
        for n in (1, 2):
            for ms in itertools.product(all_masks(n), repeat=3):
                yield (f"mask3/n{n}", rle_block(t, n, list(ms), chans=[1, 0, 32767]), opts0)
        # (2b) long tracks: run starts / lengths beyond 16 bits (force/torque decodes frame by frame
        #      in Python, so it only gets this in the thorough tier)
        if thorough or t != R.T_FORCE3D:
            yield ("big/n70000", rle_block(t, 70000, [big_mask()]), opts0)
        # (3) item counts incl. zero, large declared frame counts without items
        for n in (1, 100, 2 ** 31 - 1) if t != R.T_EMG else (1, 100, 2 ** 31 - 1):
            yield ("empty", rle_block(t, n, []), opts0)
        # (4) float alphabet at every sample position of a 2-frame item, both memory widths
        base_n = 2
        for mem in ("disk", "f8"):
            for v in F32:
                for pos in range(_width(t) * base_n):
                    sp = rle_block(t, base_n, [(True, True)])
                    _poke(sp, t, pos, v)
                    yield ("float", sp, {"mem": mem})
        # (4a) several extreme values in one frame (their sum / product leaves the float32 range)
        if _width(t) > 1:
            big, neg = F32[6], F32[7]
            for combo in ((big, big), (neg, neg), (big, neg)):
                for fill_all in (False, True):
                    sp = rle_block(t, 3, [(True, False, True), (True, True, True)], chans=[5, 1])
                    w = _width(t)
                    for fr in (0, 2):
                        _poke(sp, t, fr * w + 0, combo[0])
                        _poke(sp, t, fr * w + 1, combo[1])
                        if fill_all:
                            for q in range(2, w):
                                _poke(sp, t, fr * w + q, combo[q % 2])
                    yield ("float2", sp, opts0)
        # (4b) present frames that are NaN in some component other than the deciding first one
        yield from partial_frames(t)
        # (4c) the item list handed over at once through the list property, as list / tuple / generator
        if t in (R.T_DATA3D, R.T_FORCE3D):
            for via in ("setter-list", "setter-tuple", "setter-gen"):
                for masks in ([], [(True, False, True)], [(True, True, True), (False, True, True), (True, False, False)]):
                    yield ("via", rle_block(t, 3, masks), {"via": via})
        # (5) labels
        if t != R.T_PLATDATA:
            for lab in LABELS:
                for where in range(2):
                    labs = ["k0", "k1"]
                    labs[where] = lab
                    yield ("label", rle_block(t, 2, [(True, False), (False, True)], labels=labs), opts0)
        # (6) scalar header fields, one deviation each
        for sp in _scalar_devs(t, rle_block(t, 3, [(True, False, True), (False, True, True)], chans=[5, 1])):
            yield ("scalar", sp, opts0)
        for mem in ("f8",) + MEM_LAYOUTS:
            yield ("mem", rle_block(t, 3, [(True, False, True)]), {"mem": mem})
            yield ("mem", rle_block(t, 4, [(True, True, True, True), (False, True, True, False)], chans=[5, 1]), {"mem": mem})
        if t in (R.T_EMG, R.T_PLATDATA):
            for ch in CHAN_BY_KIND[t]:
                yield ("chan", rle_block(t, 2, [(True, True), (True, False)], chans=[ch, 7]), opts0)
                yield ("chan", rle_block(t, 2, [(True, True), (True, False)], chans=[7, ch]), opts0)
        if t == R.T_DATA3D:
            for fmt in (1, 2):
                for links in ((None, [], [(0, 1), (1, 0)], [(0, 0), (4294967295, 7), (1, 2)]) if fmt == 1 else (None,)):
                    for ntr in (0, 1, 2):
                        sp = data3d(3, [mk_track3d(3, (True, False, True), f"m{i}", i) for i in range(ntr)], fmt=fmt)
                        if fmt == 2:
                            yield ("links", sp, opts0)
                            continue
                        if links is None:  # attribute never set on the object
                            sp["links"] = []
                            yield ("links", sp, {"links_as": "absent"})
                            continue
                        sp["links"] = links
                        for las in ("list", "array"):
                            yield ("links", sp, {"links_as": las})
    elif t == R.T_PLATCAL:
        for k in range(0, 4):
            for chans in itertools.permutations(INT_CHAN, k):
                yield ("count", platcal([(c, mk_platinfo(f"P{i}", i)) for i, c in enumerate(chans)]), opts0)
        for ch in INT_CHAN_I16:
            yield ("chan", platcal([(ch, mk_platinfo("a", 1)), (7, mk_platinfo("b", 2))]), opts0)
            yield ("chan", platcal([(7, mk_platinfo("a", 1)), (ch, mk_platinfo("b", 2))]), opts0)
        for lab in LABELS:
            for where in range(2):
                labs = ["k0", "k1"]
                labs[where] = lab
                yield ("label", platcal([(3, mk_platinfo(labs[0], 0)), (1, mk_platinfo(labs[1], 1))]), opts0)
        for mem in ("disk", "f8"):
            for v in F32:
                for pos in range(14):
                    it = mk_platinfo("p", 0)
                    if pos < 2:
                        it["size"][pos] = v
                    else:
                        it["position"].reshape(-1)[pos - 2] = v
                    yield ("float", platcal([(0, it)]), {"mem": mem})
        for v in F32X:
            for pos in (0, 1, 2, 13):
                it = mk_platinfo("p", 0)
                if pos < 2:
                    it["size"][pos] = v
                else:
                    it["position"].reshape(-1)[pos - 2] = v
                yield ("floatx", platcal([(3, mk_platinfo("q", 1)), (0, it)]), opts0)
        for mem in MEM_LAYOUTS:
            yield ("mem", platcal([(3, mk_platinfo("p", 2)), (0, mk_platinfo("q", 4))]), {"mem": mem})
        for via in ("setter-list", "setter-tuple", "setter-gen"):
            for k in (0, 1, 3):
                yield ("via", platcal([(c, mk_platinfo(f"P{i}", i)) for i, c in enumerate([7, 0, 3][:k])]), {"via": via})
    elif t == R.T_DATA2D:
        for mem in MEM_LAYOUTS:
            yield ("mem", data2d(2, 2, cells_grid(2, 2, (3, 0, 1, 3))), {"mem": mem})
        shapes = [(1, 1), (1, 2), (2, 1), (2, 2)] + ([(3, 2), (2, 3)] if thorough else [])
        for (nf, nc) in shapes:
            kindset = (0, 1, 3) if nf * nc <= 4 else (0, 1)
            for kinds in itertools.product(kindset, repeat=nf * nc):
                yield (f"cells/{nf}x{nc}", data2d(nc, nf, cells_grid(nf, nc, kinds)), opts0)
        yield ("empty", data2d(0, 1, [[]]), opts0)
        for mem in ("disk", "f8"):
            for v in F32:
                for pos in range(4):
                    cells = cells_grid(1, 1, (2,))
                    cells[0][0].reshape(-1)[pos] = v
                    yield ("float", data2d(1, 1, cells), {"mem": mem})
        base = lambda: data2d(2, 2, cells_grid(2, 2, (1, 0, 3, 1)))  # noqa: E731
        for f in INT_FREQ:
            yield ("scalar", {**base(), "frequency": f}, opts0)
        for v in F32 + F32X:
            yield ("scalar", {**base(), "startTime": v}, opts0)
        for fl in (0, 1):
            yield ("scalar", {**base(), "flags": fl}, opts0)
        for ch in INT_CHAN:
            yield ("chan", {**base(), "map": np.array([ch, 7], "<u2")}, opts0)
            yield ("chan", {**base(), "map": np.array([7, ch], "<u2")}, opts0)
    elif t == R.T_CALIB:
        for fmt in (1, 2):
            for mem in MEM_LAYOUTS:
                yield ("mem", calib(fmt, [mk_cam(fmt, 1), mk_cam(fmt, 2)]), {"mem": mem})
            for k in range(0, 4):
                for chans in itertools.permutations(INT_CHAN, k):
                    yield (f"count/f{fmt}", calib(fmt, [mk_cam(fmt, i) for i in range(k)], cmap=list(chans)), opts0)
            for model in (0, 1, 2, 3):
                yield ("scalar", calib(fmt, [mk_cam(fmt, 1)], model=model), opts0)
            for ch in INT_CHAN_I16:
                yield ("chan", calib(fmt, [mk_cam(fmt, 1), mk_cam(fmt, 2)], cmap=[ch, 7]), opts0)
                yield ("chan", calib(fmt, [mk_cam(fmt, 1), mk_cam(fmt, 2)], cmap=[7, ch]), opts0)
            for sp in _geom_devs(calib(fmt, [mk_cam(fmt, 1), mk_cam(fmt, 2)])):
                yield ("scalar", sp, opts0)
            for vp in ("array", "2x2"):
                yield ("viewport", calib(fmt, [mk_cam(fmt, 1)]), {"vp": vp})
            names = ["R", "T", "focus", "center"] + (["radial", "decentering", "thin"] if fmt == 1 else ["xd", "yd"])
            for v in F64:
                for name in names:
                    size = mk_cam(fmt, 0)[name].size
                    for pos in sorted({0, size - 1, size // 2}):
                        c = mk_cam(fmt, 0)
                        c[name].reshape(-1)[pos] = v
                        yield ("float", calib(fmt, [mk_cam(fmt, 3), c]), opts0)
            for v in F64X:
                for name in names:
                    size = mk_cam(fmt, 0)[name].size
                    for pos in sorted({0, size - 1}):
                        c = mk_cam(fmt, 0)
                        c[name].reshape(-1)[pos] = v
                        yield ("floatx", calib(fmt, [mk_cam(fmt, 3), c]), opts0)
            for v in INT_I32:
                for name in ("origin", "size"):
                    for pos in (0, 1):
                        c = mk_cam(fmt, 0)
                        c[name][pos] = v
                        yield ("int", calib(fmt, [c]), opts0)
    elif t == R.T_OPT:
        for k in range(0, 4):
            yield ("count", optical([mk_chan(i) for i in range(k)]), opts0)
        for lab in LABELS32:
            for field in ("lens", "ctype", "name"):
                for where in (0, 1):
                    chans = [mk_chan(0), mk_chan(1)]
                    chans[where][field] = lab
                    yield ("label", optical(chans), opts0)
        for v in INT_I32:
            for field, pos in (("index", None), ("origin", 0), ("origin", 1), ("size", 0), ("size", 1)):
                c = mk_chan(2)
                if pos is None:
                    c[field] = v
                else:
                    c[field][pos] = v
                yield ("int", optical([mk_chan(1), c]), opts0)
        for vp in ("array", "2x2"):
            yield ("viewport", optical([mk_chan(1)]), {"vp": vp})
    elif t == R.T_EVENTS:
        for k in range(0, 4):
            for kinds in itertools.product((0, 1), repeat=k):
                for nvals in itertools.product((0, 1, 2, 3), repeat=k):
                    if any(kd == 0 and nv > 1 for kd, nv in zip(kinds, nvals)):
                        continue
                    evs = [mk_event(f"E{i}", kinds[i], nvals[i], i) for i in range(k)]
                    for mem in ("disk", "f8"):
                        yield (f"count/{k}", events(evs), {"mem": mem})
        for mem in MEM_LAYOUTS:
            yield ("mem", events([mk_event("d", 0, 1), mk_event("e", 1, 3, 2)]), {"mem": mem})
        for lab in LABELS:
            for where in range(2):
                labs = ["k0", "k1"]
                labs[where] = lab
                yield ("label", events([mk_event(labs[0], 1, 2, 0), mk_event(labs[1], 0, 1, 1)]), opts0)
        for v in F32:
            yield ("scalar", events([mk_event("e", 1, 2)], startTime=v), opts0)
            for pos in range(3):
                e = mk_event("e", 1, 3)
                e["values"][pos] = v
                yield ("float", events([mk_event("d", 0, 1), e]), opts0)
        for v in F32X:
            yield ("floatx", events([mk_event("e", 1, 2)], startTime=v), opts0)
            for pos in (0, 2):
                e = mk_event("e", 1, 3)
                e["values"][pos] = v
                yield ("floatx", events([mk_event("d", 0, 1), e]), opts0)
            e = mk_event("s", 0, 1)
            e["values"][0] = v
            yield ("floatx", events([e, mk_event("d", 1, 2)]), opts0)
    else:
        raise ValueError(t)


def partial_frames(t):
    """A frame is present when its first component is a number; its other components may be NaN (a
    marker seen with an unusable coordinate, a platform without torque reading).  Every non-first
    component of the first / the last frame of a 3-frame item with a gap in the middle, alone and all
    together, with two NaN bit patterns; one and two items."""
    w = _width(t)
    if w == 1:
        return
    nans = [F32X[2], F32X[3]]
    for fr in (0, 2):
        for nanv in nans:
            for pos in list(range(1, w)) + ["all"]:
                for items in (1, 2):
                    sp = rle_block(t, 3, [(True, False, True)] * items, chans=[5, 1])
                    for q in (range(1, w) if pos == "all" else [pos]):
                        _poke(sp, t, fr * w + q, nanv)
                    yield ("partial", sp, {})
    # a track that consists of partial frames only
    sp = rle_block(t, 2, [(True, True)])
    for fr in (0, 1):
        for q in range(1, w):
            _poke(sp, t, fr * w + q, nans[0])
    yield ("partial", sp, {})


def _width(t):
    return {R.T_DATA3D: 3, R.T_EMG: 1, R.T_FORCE3D: 9, R.T_PLATDATA: 6}[t]


def _poke(sp, t, pos, v):
    """Put float `v` at flat sample position `pos` of the first item."""
    if t == R.T_DATA3D:
        sp["tracks"][0]["data"].reshape(-1)[pos] = v
    elif t == R.T_EMG:
        sp["items"][0][1]["data"].reshape(-1)[pos] = v
    elif t == R.T_FORCE3D:
        fr, c = divmod(pos, 9)
        name = ("ap", "force", "torque")[c // 3]
        sp["tracks"][0][name][fr, c % 3] = v
    elif t == R.T_PLATDATA:
        fr, c = divmod(pos, 6)
        it = sp["items"][0][1]
        if c < 2:
            it["ap"][fr, c] = v
        elif c < 5:
            it["force"][fr, c - 2] = v
        else:
            it["torque"][fr] = v


def _geom_devs(base, alphabet=None):
    for name, size in (("vol", 3), ("rot", 9), ("trans", 3)):
        for pos in sorted({0, size - 1}):
            for v in (F32 if alphabet is None else alphabet):
                sp = dict(base)
                a = np.array(base[name], copy=True)
                a.reshape(-1)[pos] = v
                sp[name] = a
                yield sp


def _scalar_devs(t, base):
    for f in INT_FREQ:
        yield {**base, "frequency": f}
    for v in F32 + F32X:
        yield {**base, "startTime": v}
    if t in (R.T_DATA3D, R.T_FORCE3D):
        yield from _geom_devs(base)
        yield from _geom_devs(base, F32X)
    if t == R.T_DATA3D:
        for fl in (0, 1):
            yield {**base, "flags": fl}
        yield {k: v for k, v in {**base, "format": 2}.items() if k != "links"}


def spec_label(sp):
    """Short human-readable description of a spec for evidence samples."""
    t = sp["type"]
    name = R.NAMES[t]
    if t in RLE_TYPES:
        items = sp["tracks"] if "tracks" in sp else [it for _, it in sp["items"]]
        key = {R.T_DATA3D: "data", R.T_EMG: "data", R.T_FORCE3D: "ap", R.T_PLATDATA: "ap"}[t]
        masks = ["".join("x" if not np.isnan(np.asarray(it[key]).reshape(len(it[key]), -1)[i, 0]) else "."
                         for i in range(len(it[key]))) for it in items]
        return f"{name} fmt{sp['format']} items={len(items)} masks={masks}"
    if t == R.T_DATA2D:
        return f"{name} cams={sp['nCams']} frames={sp['nFrames']} cells=" + "/".join(
            "".join(str(0 if c is None else len(c)) for c in row) for row in sp["cells"])
    if t == R.T_CALIB:
        return f"{name} fmt{sp['format']} cams={len(sp['cams'])} map={list(map(int, sp['map']))}"
    if t == R.T_OPT:
        return f"{name} channels={[c['name'] for c in sp['channels']]}"
    if t == R.T_PLATCAL:
        return f"{name} items={[(c, p['label'][:8]) for c, p in sp['items']]}"
    if t == R.T_EVENTS:
        return f"{name} events={[(e['label'][:8], e['etype'], len(e['values'])) for e in sp['events']]}"
    return name
