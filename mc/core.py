"""Runner plumbing shared by all checks: result accumulation, sharding over cores, evidence
files, replay artefacts, known-findings handling, exit codes."""
import collections
import fnmatch
import hashlib
import importlib
import json
import multiprocessing
import os
import sys
import time
import traceback

from . import env

LEVEL = "model_checking"
MAX_REPORTED = 12


class Violation(Exception):
    """Raised by oracles; carries a stable signature and a replayable witness."""

    def __init__(self, clause, sig, witness, detail=""):
        super().__init__(f"{clause}: {detail}")
        self.clause = clause
        self.sig = sig
        self.witness = witness
        self.detail = detail


class Acc:
    """Mergeable accumulator of what a (shard of a) check covered."""

    def __init__(self):
        self.n = collections.Counter()  # states, transitions, traces, evaluations, nontrivial ...
        self.outcomes = collections.Counter()
        self.samples = []
        self.violations = []  # dicts: clause, sig, witness, detail
        self.caps = []
        self.notes = []
        self.exhaustive = True
        self.extra = {}

    def sample(self, s, limit=4):
        if len(self.samples) < limit:
            self.samples.append(s)

    def violation(self, clause, sig, witness, detail=""):
        self.outcomes["VIOLATION:" + clause] += 1
        if len(self.violations) < 200 and all(v["sig"] != sig for v in self.violations):
            self.violations.append({"clause": clause, "sig": sig, "witness": witness, "detail": str(detail)[:2000]})

    def cap(self, text):
        self.exhaustive = False
        if text not in self.caps:
            self.caps.append(text)

    def merge(self, o):
        self.n.update(o.n)
        self.outcomes.update(o.outcomes)
        for s in o.samples:
            self.sample(s, 8)
        for v in o.violations:
            same = [i for i, x in enumerate(self.violations) if x["sig"] == v["sig"]]
            if same:  # keep the smaller witness (simplest counterexample first)
                if len(repr(v["witness"])) < len(repr(self.violations[same[0]]["witness"])):
                    self.violations[same[0]] = v
            elif len(self.violations) < 400:
                self.violations.append(v)
        for c in o.caps:
            self.cap(c)
        self.exhaustive = self.exhaustive and o.exhaustive
        for k, v in o.extra.items():
            if isinstance(v, (int, float)) and isinstance(self.extra.get(k, 0), (int, float)):
                self.extra[k] = self.extra.get(k, 0) + v
            elif isinstance(v, list):
                self.extra.setdefault(k, [])
                for x in v:
                    if x not in self.extra[k] and len(self.extra[k]) < 64:
                        self.extra[k].append(x)
            else:
                self.extra[k] = v
        return self


def _run_shard(args):
    modname, fn, shard = args
    env.setup()
    mod = importlib.import_module(modname)
    try:
        acc = getattr(mod, fn)(shard)
        if not isinstance(acc, Acc):
            raise TypeError("shard function must return Acc")
        return ("ok", acc)
    except Exception:
        return ("err", f"shard {shard!r}\n{traceback.format_exc()}")
    finally:
        env._cleanup()  # pool workers exit without running atexit handlers


def pmap(modname, fn, shards, procs=None):
    """Run `fn(shard)` for every shard on a process pool; merge the accumulators.  A shard
    that crashes is a harness error (exit 2), never a verdict."""
    shards = list(shards)
    procs = procs or env.cores()
    total = Acc()
    if procs <= 1 or len(shards) <= 1:
        results = [_run_shard((modname, fn, s)) for s in shards]
    else:
        ctx = multiprocessing.get_context("fork")
        # one fresh process per shard: module-level state of the code under test (caches, mutable
        # defaults) must not leak from one shard into another
        with ctx.Pool(min(procs, len(shards)), maxtasksperchild=1) as pool:
            results = pool.map(_run_shard, [(modname, fn, s) for s in shards], chunksize=1)
    for (status, payload), shard in zip(results, shards):
        if status == "err":
            raise HarnessError(payload)
        for v in payload.violations:          # remember where it was found (see reproduce())
            if isinstance(v.get("witness"), dict):
                v["witness"].setdefault("_shard", [modname, fn, shard])
        total.merge(payload)
    return total


def _shard_sigs(args):
    status, payload = _run_shard(args)
    return [] if status == "err" else [v["sig"] for v in payload.violations]


def reproduce(mod, v):
    """A violation is reported only if it reproduces from its artefact: (1) the witness alone, on fresh
    objects, twice; or, if the library keeps state between inputs (class-level containers, caches keyed on
    content), (2) the shard that found it, re-run from scratch in a fresh process, reports the same
    signature again.  -> "witness" | "shard" | None"""
    w = v["witness"]
    ok = True
    for _ in range(2):
        try:
            r = mod.replay(w)
        except Violation as r2:
            r = r2
        except Exception:
            r = None
            print(traceback.format_exc())
        if not isinstance(r, Violation):
            ok = False
            break
    if ok:
        return "witness"
    sh = w.get("_shard") if isinstance(w, dict) else None
    if sh:
        # a brand-new interpreter (this process has already run the witness and may carry the very state
        # that is under suspicion)
        import subprocess

        r = subprocess.run([sys.executable, "-m", "mc", "--shard-sigs", json.dumps(sh), os.environ.get("VERIF_TIER_NOW", "quick")],
                           cwd=env.VERIF, capture_output=True, text=True)
        try:
            sigs = json.loads(r.stdout.strip().splitlines()[-1])
        except Exception:  # noqa: BLE001
            sigs = []
        if v["sig"] in sigs:
            return "shard"
    return None


def _untuple(x):
    """Shard descriptors survive a JSON round trip as lists; the shard functions expect tuples."""
    if isinstance(x, list):
        return tuple(_untuple(i) for i in x)
    return x


class HarnessError(Exception):
    pass


# ----------------------------------------------------------------------------- findings
def load_findings():
    p = os.path.join(env.VERIF, "known_findings.json")
    if not os.path.exists(p):
        return []
    with open(p) as f:
        return json.load(f).get("findings", [])


def match_open_finding(prop, sig, findings):
    for f in findings:
        if f.get("status") == "open" and f.get("property") == prop and fnmatch.fnmatchcase(sig, f.get("signature", "")):
            return f
    return None


# ----------------------------------------------------------------------------- evidence
def write_evidence(prop, tier, acc, wall, assumptions, rule, nviol):
    cov = {
        "states": int(acc.n.get("states", 0)),
        "transitions": int(acc.n.get("transitions", 0)),
        "traces_validated_against_impl": int(acc.n.get("traces", 0)),
        "evaluations": int(acc.n.get("evaluations", acc.n.get("transitions", 0))),
        "distinct_nontrivial": int(acc.n.get("nontrivial", 0)),
        "rule": rule,
        "samples": acc.samples[:8] if acc.samples else ["(no sample recorded)"],
        "exhaustive": bool(acc.exhaustive),
        "caps_hit": acc.caps,
        "distinct_outcomes": dict(sorted(acc.outcomes.items())),
        "counters": {k: int(v) for k, v in sorted(acc.n.items())},
    }
    cov.update(acc.extra)
    doc = {
        "property_id": prop,
        "tier": tier,
        "seed": env.SEED,
        "level": LEVEL,
        "coverage": cov,
        "assumptions": assumptions,
        "wall_s": round(wall, 3),
        "violations": int(nviol),
    }
    d = os.path.join(env.OUT, "evidence")
    os.makedirs(d, exist_ok=True)
    tmp = os.path.join(d, f".{prop}.json.tmp{os.getpid()}")
    with open(tmp, "w") as f:
        json.dump(doc, f, indent=1, default=str)
        f.write("\n")
    os.replace(tmp, os.path.join(d, f"{prop}.json"))
    return doc


def write_replay(prop, v):
    d = os.path.join(env.OUT, "replays", prop)
    os.makedirs(d, exist_ok=True)
    h = hashlib.sha256(v["sig"].encode()).hexdigest()[:12]
    p = os.path.join(d, f"{h}.json")
    with open(p, "w") as f:
        json.dump({"property": prop, "clause": v["clause"], "signature": v["sig"], "detail": v["detail"],
                   "witness": v["witness"], "how": f"./check {prop} --replay {p}"}, f, indent=1, default=str)
        f.write("\n")
    return p


# ----------------------------------------------------------------------------- main
def main(argv):
    if len(argv) < 2:
        print("usage: check <Cnn> quick|thorough | <Cnn> --replay <file>")
        return 2
    if argv[0] == "--shard-sigs":     # internal: re-run one shard from scratch, print the signatures it reports
        env.setup()
        sh = json.loads(argv[1])
        os.environ["VERIF_TIER_NOW"] = argv[2] if len(argv) > 2 else "quick"
        mod = importlib.import_module(sh[0])
        for holder in (getattr(mod, sh[1], None), getattr(mod, "_shard", None)):
            if holder is not None:
                try:
                    holder.tier = os.environ["VERIF_TIER_NOW"]
                except Exception:  # noqa: BLE001
                    pass
        print(json.dumps(_shard_sigs((sh[0], sh[1], _untuple(sh[2])))))
        return 0
    prop = argv[0].upper()
    env.setup()
    mod = importlib.import_module(f"mc.checks.{prop.lower()}")
    if argv[1] == "--replay":
        with open(argv[2]) as f:
            art = json.load(f)
        try:
            res = mod.replay(art["witness"])
        except Violation as v:
            res = v
        if isinstance(res, Violation):
            print(f"REPRODUCED property={prop} clause={res.clause} sig={res.sig}\n  {res.detail}")
            return 1
        how = reproduce(mod, {"witness": art["witness"], "sig": art["signature"]})
        if how == "shard":
            print(f"REPRODUCED property={prop} sig={art['signature']}\n  by re-running the shard that found it from scratch "
                  f"(the library keeps state between inputs, the witness alone is not enough)")
            return 1
        print(f"not reproduced: property={prop} holds on this witness")
        return 0
    tier = argv[1]
    if tier not in ("quick", "thorough"):
        print("tier must be quick or thorough")
        return 2
    t0 = time.time()
    os.environ["VERIF_TIER_NOW"] = tier
    try:
        acc = mod.run(tier)
    except HarnessError as e:
        print(f"HARNESS-ERROR property={prop}\n{e}")
        return 2
    findings = load_findings()
    new, known = [], []
    for v in acc.violations:
        # determinism: the violation must reproduce from its artefact
        ok = True
        if hasattr(mod, "replay") and v["witness"] is not None:
            how = reproduce(mod, v)
            ok = how is not None
            if how == "shard":
                v["detail"] += "  [reproduces only together with the inputs that precede it in its shard: the library keeps state between inputs]"
        if not ok:
            print(f"HARNESS-ERROR property={prop}: witness did not reproduce deterministically: {v['sig']}")
            write_evidence(prop, tier, acc, time.time() - t0, getattr(mod, "ASSUMPTIONS", []),
                           getattr(mod, "RULE", ""), len(acc.violations))
            return 2
        f = match_open_finding(prop, v["sig"], findings)
        (known if f else new).append((v, f))
    wall = time.time() - t0
    write_evidence(prop, tier, acc, wall, getattr(mod, "ASSUMPTIONS", []), getattr(mod, "RULE", ""), len(new))
    c = acc.n
    print(f"{prop} {tier}: states={c.get('states', 0)} transitions={c.get('transitions', 0)} "
          f"traces={c.get('traces', 0)} nontrivial={c.get('nontrivial', 0)} outcomes={len(acc.outcomes)} "
          f"exhaustive={acc.exhaustive} wall={wall:.1f}s")
    for v, f in known:
        print(f"KNOWN-FINDING: property={prop} {f.get('what', v['sig'])}")
    for v, _ in new[:MAX_REPORTED]:
        p = write_replay(prop, v)
        print(f"VIOLATION property={prop} replay={p}")
        print(f"  clause={v['clause']} sig={v['sig']}\n  {v['detail'][:600]}")
    if len(new) > MAX_REPORTED:
        print(f"  ... and {len(new) - MAX_REPORTED} more distinct violation signatures")
    return 1 if new else 0
