import sys

from mc.core import main

sys.exit(main(sys.argv[1:]))
