"""Bounded-exhaustive explicit-state exploration of marnunez/basictdf (see DESIGN.md)."""
