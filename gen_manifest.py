#!/venv/bin/python
"""Writes MANIFEST.json from the table below (kept in one place so it stays valid)."""
import json
import os

HERE = os.path.dirname(os.path.abspath(__file__))
CHECKS = {
    "C01": ("bounded-exhaustive shape-space exploration of the real codec (builder state machine), 3 allocator poisons",
            "Every builder state of all nine block kinds (all gap masks up to the bound, item counts 0..3, every header "
            "scalar/label/float-alphabet deviation, both 3D and both calibration formats) is encoded and decoded by the "
            "real code and compared bit-for-bit with the spec; re-encoding must be identical.", "3 C01"),
    "C02": ("bounded-exhaustive shape-space exploration; size oracle after every builder transition",
            "nBytes = written = consumed at block level and, through per-item growth, at nested-item level for every "
            "builder state (also decoding the same state with every padding byte filled); the 8 blocks of the BTS capture against the "
            "jump table; edge inputs (text of field width, inf as first component) judged only if accepted.", "3 C02"),
    "C03": ("explicit-state BFS to fixpoint over the real Tdf object on a real file vs. independent parser",
            "All reachable file states for small tables (every op applied in every state, incl. full tables, opaque "
            "blocks, N=14) are parsed independently and checked for structural soundness; every removal order and every add / replace / setter attempt on files with a hole "
            "in the table.", "3 C03"),
    "C04": ("explicit-state BFS to fixpoint; per-record comparison with a reference model of the history",
            "Same state space as C03; every live record (payload, format, comment, dates) and every block read is "
            "compared with the reference model after every transition.", "3 C04"),
    "C05": ("exhaustive mask enumeration on the real codec x allocator poisons, independent run-table parser",
            "All 2^n masks (n<=8 quick, <=13 thorough), complete <=1/<=2-run families on long tracks, independent masks "
            "on 2-3 items, present frames with NaN components, 4 memory layouts; run table well-formedness and NaN-exactly-on-gaps under "
            "every allocator state from 4 byte sources; items of another frame count through every hand-over path (if accepted).", "3 C05"),
    "C06": ("bounded-exhaustive differential check against an independent layout-driven encoder/decoder + golden capture digest",
            "Real writer bytes == reference encoder bytes for every builder state and for library-written files; "
            "reference-built bytes/files (with junk don't-care bytes) decode to the spec; capture agrees with the "
            "reference decoder and the committed digest.", "3 C06"),
    "C09": ("explicit-state BFS to fixpoint; compactness invariant on the independent parse after every op",
            "Same state space as C03; prefix-of-live-slots, back-to-back offsets, free slots at end of data, exact "
            "file length and exact grow/shrink per transition.", "3 C09"),
    "C10": ("explicit-state BFS to fixpoint + all straight-line histories to depth 3 in one context; four observers compared",
            "After every single op inside the open context: in-memory table == disk now (second descriptor) == disk "
            "after close == fresh object; nBytes; block reads vs. bytes on disk.", "3 C10"),
    "C11": ("explicit-state BFS to fixpoint incl. refused requests; every accessor evaluated in every state vs. model",
            "Duplicate adds, setters on present/absent/full, and all presence/len/lookup/list/getter accessors in "
            "every reachable state.", "3 C11"),
    "C12": ("bounded-exhaustive enumeration of don't-care byte assignments on the real decoder (per region, all regions, per byte)",
            "Every builder state, reference-built files and the 8 capture blocks: each don't-care region alone, all at once "
            "and (small blocks, N=2 files) each single byte, with 4 fills incl. a cp1252-undefined one; decoded content "
            "must re-encode to the canonical bytes.", "3 C12"),
    "C13": ("deviation-bounded exhaustive string/byte enumeration on the real field codec vs. an own cp1252 table",
            "All strings within <=1 (all widths) / <=2 (small widths) deviations from 'a'*L over a 258-symbol alphabet, all "
            "256^w reads for w<=2, first-NUL sweeps for wide fields, boundary labels through every block field and the "
            "entry comment.", "3 C13"),
    "C14": ("exhaustive pair enumeration: each base block vs. itself / rebuilt / round trip / every single-site mutation",
            "Equality must be true for the three equal partners and false (both directions, also on decoded forms) for "
            "every single-site mutation; edge pairs (foreign full-width labels, other frame count); 12 file pairs plus stale-object "
            "comparisons for Tdf equality.", "3 C14"),
    "C15": ("explicit-state BFS (depth-bounded) over real block objects vs. a list-of-pairs model",
            "All add/remove/bulk/assign/round-trip histories to depth 4 (6) on the three channel-mapped classes from "
            "empty, constructor-filled and decoded starts.", "3 C15"),
    "C16": ("explicit-state BFS to fixpoint over real block objects; all lists <=3 over {good, wrong-length, non-track}",
            "Every add / tracks-assignment menu entry in every reachable (class, frame count, start, track count) state; "
            "refusals must leave the block untouched, acceptances install exactly the list; 200 000-frame blocks off by one, decode "
            "of bytes whose runs exceed the declared frames, zero-frame blocks.", "3 C16"),
    "C18": ("exhaustive enumeration of label tuples x key menu on real blocks vs. a plain list model",
            "156 label tuples (duplicates, empty, case, blanks) x 4 classes x built / decoded / decoded from foreign full-width "
            "labels x ~35 keys, before and after every single edit.", "3 C18"),
    "C19": ("exhaustive enumeration of argument shapes/kinds per validated constructor argument; 27 000 coupled triples",
            "Every rank 0-3 shape with extents 0..4 x 6 dtypes + 9 non-array kinds for 22 arguments; accepted objects must "
            "not be mis-sized.", "3 C19"),
    "C20": ("explicit-state BFS (depth-bounded) over interleavings on 2-3 instances, states rebuilt by replay, fresh-instance probe",
            "All interleavings of construct / construct-with-list / decode / add / remove / edit over two (three) slots "
            "per class; each slot must equal its own model after every step and a fresh instance must be empty; plus the structural "
            "form for all 9 kinds: no mutable object reachable from two separately created blocks.", "3 C20"),
    "C07": ("fault enumeration over an explicit-state BFS of the real container: every rejection cause x API x position in every reachable state, differential continuation",
            "Each failing request (duplicate, full, absent, bad label first/middle/last, unsupported format, wrong "
            "object, bad comment, hole) is executed in every reachable state of small configurations; sha256 unchanged, "
            "memory table == disk, and continuation ops agree with the twin history without the failed call.", "3 C07"),
    "C08": ("explicit-state BFS to fixpoint of the access-mode machine on one real Tdf object (replay-rebuilt states)",
            "All interleavings of allow_write / enter / exit / exit-with-exception / 8 mutators / 26 readers; bytes "
            "change only for mutators in a write-enabled context (also for requests that ask for what is already there); descriptors "
            "counted via /proc/self/fd, also on well-formed files the library cannot read completely.", "3 C08"),
    "C17": ("exhaustive enumeration target kind x source state (from K) x op x path type, then one-op mutations of either side",
            "Tdf.new / copy against absent, TDF, non-TDF and empty targets from every source state up to depth 2 (3); "
            "opening absent / empty / non-TDF / truncated files and files with one signature byte flipped; symlinked sources; "
            "Tdf.new as first creation of a process after other library activity.", "3 C17"),
}
NOT_YET = {}


def main():
    checks = []
    for pid in sorted(CHECKS):
        tech, text, ref = CHECKS[pid]
        checks.append({
            "property_id": pid,
            "quick_cmd": f"./check {pid} quick",
            "thorough_cmd": f"./check {pid} thorough",
            "evidence_file": f"/verif/evidence/{pid}.json",
            "replay_cmd_template": f"./check {pid} --replay {{path}}",
            "engine": "mc",
            "level_claimed": {"category": "model_checking", "text": text, "design_ref": f"DESIGN.md section {ref}"},
            "level_note": ("Bounded: alphabets, frame counts, table lengths and depths as listed in the evidence file "
                           "(assumptions, caps_hit). Trusted base: the independent reference codec mc/tdfref.py "
                           "(validated byte-for-byte on the BTS capture), numpy, CPython."),
            "technique": tech,
        })
    props = [json.loads(l)["id"] for l in open(os.path.join(HERE, "properties.jsonl"))]
    na = [{"property_id": p, "reason": NOT_YET.get(p, "check not built yet in this revision (planned, see DESIGN.md section 3); "
                                                      "nothing is claimed for it")}
          for p in props if p not in CHECKS]
    doc = {
        "version": 1,
        "setup_cmd": "/venv/bin/python -c \"import numpy, sys; sys.path.insert(0, '/repo/src'); import basictdf\"",
        "hooks": {"guard": "BASICTDF_VERIF", "enable": "no source hooks are needed: checks import /repo/src directly "
                  "(BASICTDF_VERIF=1 is exported by ./check but nothing in /repo reads it)",
                  "baseline_off_cmd": "cd /repo && /venv/bin/python -m pytest -ra -q -p no:cacheprovider --timeout=900 "
                                      "--continue-on-collection-errors",
                  "source_commits": [], "add_only": True},
        "engines": [{"name": "mc", "path": "/verif/mc", "serves_properties": sorted(CHECKS),
                     "kind_free_text": "hand-written explicit-state / bounded-exhaustive explorer in Python driving the "
                                       "real implementation against reference models (state-space mode on files and "
                                       "block objects, shape-space mode on codecs)"}],
        "checks": checks,
        "not_applicable": na,
        "notes": "Genuine defects found and repaired are listed in /verif/known_findings.json (status fixed).",
    }
    with open(os.path.join(HERE, "MANIFEST.json"), "w") as f:
        json.dump(doc, f, indent=1)
        f.write("\n")


if __name__ == "__main__":
    main()
