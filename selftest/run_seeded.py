#!/venv/bin/python
"""Run the checks against every seeded property-breaking change under /verif/seeded/<id>/.

For each seeded change: a scratch git worktree of /repo is created under $TMPDIR (never inside
/repo or /verif), the patch is applied, (1) the repository's own tests are run (they must still
pass), (2) the demonstration must fail with the patch and pass without, (3) the property's
quick check (and optionally all checks / the thorough tier) is pointed at the scratch tree with
VERIF_REPO and its evidence redirected with VERIF_OUT.  The worktree is removed afterwards.

usage: run_seeded.py [--all-checks] [--thorough] [--only <seed-id> ...] [--no-tests]
"""
import json
import os
import shutil
import subprocess
import sys
import tempfile

HERE = os.path.dirname(os.path.abspath(__file__))
VERIF = os.path.dirname(HERE)
REPO = "/repo"
PY = "/venv/bin/python"


def sh(cmd, cwd=None, env=None, timeout=1500):
    try:
        r = subprocess.run(cmd, shell=True, cwd=cwd, env=env, capture_output=True, text=True, timeout=timeout)
    except subprocess.TimeoutExpired:
        subprocess.run("ps -eo pid,args | grep -E '[p]ython -m mc C' | awk '{print $1}' | xargs -r kill", shell=True)
        return 124, f"timed out after {timeout}s: {cmd}"
    return r.returncode, r.stdout + r.stderr


def apply_patch(wt, patch):
    """git apply; if the tree moved on since the patch was made (later fix commits), fall back to a
    3-way merge using the blob ids recorded in the patch."""
    rc, o = sh(f"git -C {wt} apply {patch}")
    if rc:
        rc, o2 = sh(f"git -C {wt} apply --3way {patch}")
        o += o2
        if not rc:
            sh(f"git -C {wt} reset -q")
    return rc, o


def main(argv):
    all_checks = "--all-checks" in argv
    tier = "thorough" if "--thorough" in argv else "quick"
    only = []
    if "--only" in argv:
        only = argv[argv.index("--only") + 1:]
    seeds = sorted(d for d in os.listdir(os.path.join(VERIF, "seeded")) if os.path.isdir(os.path.join(VERIF, "seeded", d)))
    if only:
        seeds = [s for s in seeds if s in only]
    props = [json.loads(l)["id"] for l in open(os.path.join(VERIF, "properties.jsonl"))]
    results = {}
    for sid in seeds:
        sdir = os.path.join(VERIF, "seeded", sid)
        meta = json.load(open(os.path.join(sdir, "meta.json")))
        if meta.get("obsolete"):
            results[sid] = {"property": meta["property"], "obsolete": True}
            print(sid, json.dumps(results[sid]), flush=True)
            continue
        tmp = tempfile.mkdtemp(prefix="seeded-")
        wt = os.path.join(tmp, "wt")
        out = os.path.join(tmp, "out")
        os.makedirs(out)
        res = {"property": meta["property"]}
        try:
            rc, o = sh(f"git -C {REPO} worktree add -q --detach {wt} HEAD")
            if rc:
                raise RuntimeError(o)
            env = dict(os.environ, PYTHONPATH=os.path.join(wt, "src"), PYTHONDONTWRITEBYTECODE="1")
            demo = os.path.join(sdir, meta.get("demo", "demo.py"))
            rc0, _ = sh(f"{PY} {demo}", cwd=tmp, env=env)
            res["demo_unpatched_exit"] = rc0
            rc, o = apply_patch(wt, os.path.join(sdir, 'patch.diff'))
            if rc:
                res["apply"] = "FAILED: " + o[-300:]
                results[sid] = res
                continue
            if "--no-tests" not in argv:
                rc, o = sh(f"{PY} -m pytest -q -p no:cacheprovider --timeout=900 --continue-on-collection-errors 2>&1 | tail -1", cwd=wt, env=env)
                rc2, o2 = sh(f"{PY} -m unittest tests.test_Tdf 2>&1 | tail -1", cwd=wt, env=env)
                res["tests"] = "pass" if ("39 passed" in o and "OK" in o2) else f"FAIL: {o.strip()} / {o2.strip()}"
            rc1, _ = sh(f"{PY} {demo}", cwd=tmp, env=env)
            res["demo_patched_exit"] = rc1
            cenv = dict(os.environ, VERIF_REPO=wt, VERIF_OUT=out)
            cenv.pop("PYTHONPATH", None)
            outside = meta.get("outside_property")
            which = props if all_checks else (list(outside.get("reported_by") or []) + [meta["property"]] if outside else [meta["property"]])
            caught = []
            for p in which:
                rc, o = sh(f"./check {p} {tier}", cwd=VERIF, env=cenv)
                if rc == 1 and "VIOLATION property=" in o:
                    caught.append(p)
                elif rc not in (0, 1):
                    res.setdefault("harness_errors", []).append(f"{p}: exit {rc}: {o[-200:]}")
            res["caught_by"] = caught
            res["detected"] = meta["property"] in caught
            if outside:   # breaks something, but not the property it was written for (see meta.json): judged by the sibling checks
                res["outside_property"] = True
                res["own_check_silent"] = meta["property"] not in caught
                res["detected"] = any(c in caught for c in outside["reported_by"]) if outside.get("reported_by") else None
        finally:
            sh(f"git -C {REPO} worktree remove --force {wt}")
            shutil.rmtree(tmp, ignore_errors=True)
        results[sid] = res
        print(sid, json.dumps(res), flush=True)
    live = {s: r for s, r in results.items() if not r.get("obsolete") and r.get("detected") is not None}
    missed = [s for s, r in live.items() if not r.get("detected")]
    print(f"\n{len(live) - len(missed)}/{len(live)} seeded changes detected by their property's {tier} check; missed: {missed}"
          + (f"; obsolete (neutralised by a later fix, skipped): {[s for s in results if s not in live]}" if len(live) != len(results) else ""))
    with open(os.path.join(HERE, f"last_run_{tier}{'_all' if all_checks else ''}{os.environ.get('VERIF_RUN_TAG', '')}.json"), "w") as f:
        json.dump(results, f, indent=1)
    return 0


if __name__ == "__main__":
    sys.exit(main(sys.argv[1:]))
