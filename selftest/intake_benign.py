#!/venv/bin/python
"""Confirm a sub-agent's 'benign behaviour change' (alters something observable, keeps all 20 properties) and
import it into /verif/benign/<id>-<k>/ : patch applies, repository tests pass, demo exits 0 without and != 0 with it.

usage: intake_benign.py <Bnn> [<k> ...]   (reads /tmp/seed8/<Bnn>/patch<k>.diff, demo<k>.py, notes.md)"""
import json
import os
import shutil
import subprocess
import sys
import tempfile

PY = "/venv/bin/python"


def sh(cmd, cwd=None, env=None):
    r = subprocess.run(cmd, shell=True, cwd=cwd, env=env, capture_output=True, text=True, timeout=1800)
    return r.returncode, r.stdout + r.stderr


def main(argv):
    bid = argv[0]
    ks = argv[1:] or ["1", "2", "3"]
    src = f"/tmp/seed8/{bid}"
    for k in ks:
        patch, demo = f"{src}/patch{k}.diff", f"{src}/demo{k}.py"
        if not (os.path.exists(patch) and os.path.exists(demo)):
            print(bid, k, "missing deliverable")
            continue
        tmp = tempfile.mkdtemp(prefix="intakeb-")
        wt = os.path.join(tmp, "wt")
        try:
            sh(f"git -C /repo worktree add -q --detach {wt} HEAD")
            env = dict(os.environ, PYTHONPATH=os.path.join(wt, "src"), PYTHONDONTWRITEBYTECODE="1")
            text = open(demo).read().replace(f"/tmp/wt8/{bid}/src", os.path.join(wt, "src")).replace(f"/tmp/wt8/{bid}", wt)
            d2 = os.path.join(tmp, "demo.py")
            open(d2, "w").write(text)
            rc0, o0 = sh(f"{PY} {d2}", cwd=tmp, env=env)
            rc, o = sh(f"git -C {wt} apply {patch}")
            if rc:
                print(bid, k, "patch does not apply:", o[-200:])
                continue
            rct, ot = sh(f"{PY} -m pytest -q -p no:cacheprovider --timeout=900 --continue-on-collection-errors 2>&1 | tail -1", cwd=wt, env=env)
            rcu, ou = sh(f"{PY} -m unittest tests.test_Tdf 2>&1 | tail -1", cwd=wt, env=env)
            rc1, o1 = sh(f"{PY} {d2}", cwd=tmp, env=env)
            tests_ok = "39 passed" in ot and "OK" in ou
            ok = rc0 == 0 and rc1 != 0 and tests_ok
            print(bid, k, "CONFIRMED" if ok else "REJECTED", f"demo unpatched={rc0} patched={rc1} tests={'pass' if tests_ok else ot.strip() + ' / ' + ou.strip()}")
            if not ok:
                continue
            dst = f"/verif/benign/{bid}-{k}"
            os.makedirs(dst, exist_ok=True)
            shutil.copy(patch, os.path.join(dst, "patch.diff"))
            open(os.path.join(dst, "demo.py"), "w").write(open(demo).read().replace(f"/tmp/wt8/{bid}/src", "/repo/src").replace(f"/tmp/wt8/{bid}", "/repo"))
            if os.path.exists(f"{src}/notes.md"):
                shutil.copy(f"{src}/notes.md", os.path.join(dst, "notes.md"))
            json.dump({"origin": "independent sub-agent given the text of all 20 properties and a scratch worktree; asked for a change that alters "
                                 "observable behaviour while keeping every property true",
                       "confirmed": {"tests with patch": "39 passed + unittest OK", "demo without patch": f"exit {rc0}", "demo with patch": f"exit {rc1}"},
                       "patched_demo_output": o1[-300:].strip()}, open(os.path.join(dst, "meta.json"), "w"), indent=1)
        finally:
            sh(f"git -C /repo worktree remove --force {wt}")
            shutil.rmtree(tmp, ignore_errors=True)


if __name__ == "__main__":
    main(sys.argv[1:])
