#!/venv/bin/python
"""Confirm a sub-agent's seeded change and import it into /verif/seeded/<id>-<k>/.

usage: intake.py <Cnn> [<k> ...]     (reads /tmp/seed/<Cnn>/patch<k>.diff, demo<k>.py, notes.md)
Confirms in a scratch worktree: patch applies, repository tests still pass, demo exits 0 without
and != 0 with the patch.  Only then the change is kept."""
import json
import os
import shutil
import subprocess
import sys
import tempfile

PY = "/venv/bin/python"


def sh(cmd, cwd=None, env=None):
    r = subprocess.run(cmd, shell=True, cwd=cwd, env=env, capture_output=True, text=True, timeout=1800)
    return r.returncode, r.stdout + r.stderr


def main(argv):
    wave = ""
    srcroot, wtroot = "/tmp/seed", "/tmp/wt"
    if argv and argv[0] == "--wave2":
        wave, srcroot, wtroot = "w2-", "/tmp/seed2", "/tmp/wt2"
        argv = argv[1:]
    elif argv and argv[0] == "--wave4":
        wave, srcroot, wtroot = "w4-", "/tmp/seed5", "/tmp/wt5"
        argv = argv[1:]
    elif argv and argv[0] == "--wave7":
        wave, srcroot, wtroot = "w7-", "/tmp/seed9", "/tmp/wt9"
        argv = argv[1:]
    elif argv and argv[0] == "--wave6":
        wave, srcroot, wtroot = "w6-", "/tmp/seed7", "/tmp/wt7"
        argv = argv[1:]
    elif argv and argv[0] == "--wave5":
        wave, srcroot, wtroot = "w5-", "/tmp/seed6", "/tmp/wt6"
        argv = argv[1:]
    elif argv and argv[0] == "--wave3":
        wave, srcroot, wtroot = "w3-", "/tmp/seed4", "/tmp/wt4"
        argv = argv[1:]
    pid = argv[0]
    ks = argv[1:] or (["1", "2", "3"] if wave else ["1", "2"])
    src = f"{srcroot}/{pid}"
    for k in ks:
        patch, demo = f"{src}/patch{k}.diff", f"{src}/demo{k}.py"
        if not (os.path.exists(patch) and os.path.exists(demo)):
            print(pid, k, "missing deliverable")
            continue
        tmp = tempfile.mkdtemp(prefix="intake-")
        wt = os.path.join(tmp, "wt")
        try:
            sh(f"git -C /repo worktree add -q --detach {wt} HEAD")
            env = dict(os.environ, PYTHONPATH=os.path.join(wt, "src"), PYTHONDONTWRITEBYTECODE="1")
            # demos may hard-code their author's worktree path on sys.path: neutralise by copying with a substitution
            text = open(demo).read().replace(f"{wtroot}/{pid}/src", os.path.join(wt, "src")).replace(f"{wtroot}/{pid}", wt)
            d2 = os.path.join(tmp, "demo.py")
            open(d2, "w").write(text)
            rc0, o0 = sh(f"{PY} {d2}", cwd=tmp, env=env)
            rc, o = sh(f"git -C {wt} apply {patch}")
            if rc:   # the tree moved on (a fix commit) since the author's worktree was made
                rc, o2 = sh(f"git -C {wt} apply --3way {patch}")
                o += o2
                if not rc:
                    sh(f"git -C {wt} reset -q")
            if rc:
                print(pid, k, "patch does not apply:", o[-200:])
                continue
            rct, ot = sh(f"{PY} -m pytest -q -p no:cacheprovider --timeout=900 --continue-on-collection-errors 2>&1 | tail -1", cwd=wt, env=env)
            rcu, ou = sh(f"{PY} -m unittest tests.test_Tdf 2>&1 | tail -1", cwd=wt, env=env)
            rc1, o1 = sh(f"{PY} {d2}", cwd=tmp, env=env)
            tests_ok = "39 passed" in ot and "OK" in ou
            ok = rc0 == 0 and rc1 != 0 and tests_ok
            print(pid, k, "CONFIRMED" if ok else "REJECTED", f"demo unpatched={rc0} patched={rc1} tests={'pass' if tests_ok else ot.strip() + ' / ' + ou.strip()}")
            if not ok:
                print("   unpatched output:", o0[-300:].strip())
                print("   patched output:", o1[-300:].strip())
                continue
            dst = f"/verif/seeded/{pid}-{wave}{k}"
            os.makedirs(dst, exist_ok=True)
            shutil.copy(patch, os.path.join(dst, "patch.diff"))
            open(os.path.join(dst, "demo.py"), "w").write(open(demo).read().replace(f"{wtroot}/{pid}/src", "/repo/src").replace(f"{wtroot}/{pid}", "/repo"))
            notes = open(f"{src}/notes.md").read() if os.path.exists(f"{src}/notes.md") else ""
            open(os.path.join(dst, "notes.md"), "w").write(notes)
            meta = {"property": pid, "origin": f"independent sub-agent given only the text of {pid} and a scratch worktree",
                    "demo": "demo.py",
                    "needs": "see notes.md (section for patch %s)" % k,
                    "confirmed": {"repository tests with patch": "39 passed + unittest tests.test_Tdf OK",
                                  "demo without patch": f"exit {rc0}", "demo with patch": f"exit {rc1}",
                                  "how": "selftest/intake.py in a scratch git worktree of /repo (removed afterwards)"},
                    "patched_demo_output": o1[-400:].strip()}
            json.dump(meta, open(os.path.join(dst, "meta.json"), "w"), indent=1)
        finally:
            sh(f"git -C /repo worktree remove --force {wt}")
            shutil.rmtree(tmp, ignore_errors=True)


if __name__ == "__main__":
    main(sys.argv[1:])
