#!/venv/bin/python
"""False-alarm test: run every check against behaviour-preserving refactorings kept under
/verif/refactors/<id>/patch.diff (each applied in a scratch worktree of /repo; the repository's tests
must pass; every check must stay silent).

usage: run_refactors.py [--thorough] [--only <id> ...] [--checks Cnn ...]
VERIF_REFACTOR_DIR=benign selects /verif/benign/ (changes that alter behaviour no property speaks about);
VERIF_RUN_TAG names the result file."""
import json
import os
import shutil
import subprocess
import sys
import tempfile

HERE = os.path.dirname(os.path.abspath(__file__))
VERIF = os.path.dirname(HERE)
PY = "/venv/bin/python"


def sh(cmd, cwd=None, env=None, timeout=1500):
    try:
        r = subprocess.run(cmd, shell=True, cwd=cwd, env=env, capture_output=True, text=True, timeout=timeout)
    except subprocess.TimeoutExpired:
        subprocess.run("ps -eo pid,args | grep -E '[p]ython -m mc C' | awk '{print $1}' | xargs -r kill", shell=True)
        return 124, f"timed out: {cmd}"
    return r.returncode, r.stdout + r.stderr


def apply_patch(wt, patch):
    """git apply; if the tree moved on since the patch was made (later fix commits), fall back to a
    3-way merge using the blob ids recorded in the patch."""
    rc, o = sh(f"git -C {wt} apply {patch}")
    if rc:
        rc, o2 = sh(f"git -C {wt} apply --3way {patch}")
        o += o2
        if not rc:
            sh(f"git -C {wt} reset -q")
    return rc, o


def main(argv):
    tier = "thorough" if "--thorough" in argv else "quick"
    only = argv[argv.index("--only") + 1:] if "--only" in argv else []
    if "--checks" in only:
        only = only[:only.index("--checks")]
    props = [json.loads(l)["id"] for l in open(os.path.join(VERIF, "properties.jsonl"))]
    if "--checks" in argv:
        props = [a for a in argv[argv.index("--checks") + 1:] if a.startswith("C")]
    root = os.path.join(VERIF, os.environ.get("VERIF_REFACTOR_DIR", "refactors"))
    ids = sorted(d for d in os.listdir(root) if os.path.isdir(os.path.join(root, d)))
    if only:
        ids = [i for i in ids if i in only]
    results = {}
    for rid in ids:
        tmp = tempfile.mkdtemp(prefix="refactor-")
        wt, out = os.path.join(tmp, "wt"), os.path.join(tmp, "out")
        os.makedirs(out)
        res = {}
        try:
            sh(f"git -C /repo worktree add -q --detach {wt} HEAD")
            rc, o = apply_patch(wt, os.path.join(root, rid, 'patch.diff'))
            if rc:
                res["apply"] = "FAILED " + o[-200:]
                results[rid] = res
                print(rid, json.dumps(res), flush=True)
                continue
            env = dict(os.environ, PYTHONPATH=os.path.join(wt, "src"), PYTHONDONTWRITEBYTECODE="1")
            rc, o = sh(f"{PY} -m pytest -q -p no:cacheprovider --timeout=900 --continue-on-collection-errors 2>&1 | tail -1", cwd=wt, env=env)
            rc2, o2 = sh(f"{PY} -m unittest tests.test_Tdf 2>&1 | tail -1", cwd=wt, env=env)
            res["tests"] = "pass" if ("39 passed" in o and "OK" in o2) else f"FAIL {o.strip()} / {o2.strip()}"
            cenv = dict(os.environ, VERIF_REPO=wt, VERIF_OUT=out)
            cenv.pop("PYTHONPATH", None)
            alarms = []
            for p in props:
                rc, o = sh(f"./check {p} {tier}", cwd=VERIF, env=cenv)
                if rc != 0:
                    first = next((l for l in o.splitlines() if "clause=" in l or "HARNESS" in l), o[-200:])
                    alarms.append({"check": p, "exit": rc, "what": first.strip()[:300]})
            res["alarms"] = alarms
        finally:
            sh(f"git -C /repo worktree remove --force {wt}")
            shutil.rmtree(tmp, ignore_errors=True)
        results[rid] = res
        print(rid, json.dumps(res), flush=True)
    bad = [r for r, v in results.items() if v.get("alarms") or v.get("tests") != "pass"]
    print(f"\n{len(results) - len(bad)}/{len(results)} refactorings: tests pass and all checks silent; needs a look: {bad}")
    json.dump(results, open(os.path.join(HERE, f"last_refactors_{tier}{os.environ.get('VERIF_RUN_TAG', '')}.json"), "w"), indent=1)


if __name__ == "__main__":
    main(sys.argv[1:])
