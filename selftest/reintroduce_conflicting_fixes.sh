#!/bin/sh
run() { # name prop pyedit
  wt=/tmp/regress2-$1; git -C /repo worktree add -q --detach $wt HEAD
  /venv/bin/python - "$wt" <<PY
import sys
p=sys.argv[1]+'/src/basictdf/basictdf.py'; s=open(p).read()
$3
open(p,'w').write(s)
PY
  (cd $wt && PYTHONPATH=$wt/src /venv/bin/python -m pytest -q -p no:cacheprovider --continue-on-collection-errors 2>&1 | tail -1)
  out=$(cd /verif && VERIF_REPO=$wt VERIF_OUT=/dev/shm/oreg ./check $2 quick 2>&1); rc=$?
  echo "$1 $2 exit=$rc VIOLATION lines=$(echo "$out" | grep -c '^VIOLATION')"
  git -C /repo worktree remove --force $wt
}
# F3 (51f04ee): the new unused slot's offset computed before the following entries are shifted
run F3 C09 "
old='''        # the new unused slot points at the end of the remaining data
        newOffset = max(
            (entry.offset + entry.size for entry in self.entries),
            default=64 + 288 * self.nEntries,
        )
'''
assert old in s
s=s.replace(old,'',1)
anchor='''        # delete entry
        self.entries.remove(oldEntry)'''
assert anchor in s
s=s.replace(anchor,'''        newOffset = max(
            (entry.offset + entry.size for entry in self.entries),
            default=64 + 288 * self.nEntries,
        )

'''+anchor,1)
"
# F5 (8677812): replace_block without the dry run
run F5 C07 "
old='''        self._serialise_entry_and_block(newBlock, comment, old_entry.offset)

        self.remove_block(newBlock.type)'''
assert old in s
s=s.replace(old,'''        self.remove_block(newBlock.type)''',1)
"
# F4 (538a68a): add_block writes the table entry before the block has been serialised
run F4 C07 "
old='''        entry_buffer = BytesIO()
        new_entry._write(entry_buffer)
        block_buffer = BytesIO()
        newBlock._write(block_buffer)
        return new_entry, entry_buffer, block_buffer'''
assert old in s
s=s.replace(old,'''        entry_buffer = BytesIO()
        new_entry._write(entry_buffer)
        return new_entry, entry_buffer, newBlock''',1)
old='''        # write new block
        self.handler.seek(new_entry.offset, 0)
        self.handler.write(block_buffer.getvalue())'''
assert old in s
s=s.replace(old,'''        # write new block
        self.handler.seek(new_entry.offset, 0)
        block_buffer._write(self.handler)''',1)
"
