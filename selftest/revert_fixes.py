#!/venv/bin/python
"""Does every repaired defect get reported again if its fix is undone?  For each fixed entry of
known_findings.json: scratch worktree of /repo HEAD, `git revert --no-commit <fix>`, run the property's quick check."""
import json, os, re, shutil, subprocess, tempfile
def sh(c, **k):
    r = subprocess.run(c, shell=True, capture_output=True, text=True, **k); return r.returncode, r.stdout + r.stderr
d = json.load(open('/verif/known_findings.json'))
out = {}
for f in d['findings']:
    m = re.search(r'property=(C\d+) ([0-9a-f]{7})', f['what'])
    prop, commit = m.group(1), m.group(2)
    tmp = tempfile.mkdtemp(prefix='regress-'); wt = os.path.join(tmp, 'wt')
    try:
        sh(f'git -C /repo worktree add -q --detach {wt} HEAD')
        rc, o = sh(f'git -C {wt} revert --no-commit {commit}')
        if rc:
            out[commit] = {'property': prop, 'revert': 'conflict (later fixes build on it)'}
            print(commit, prop, 'revert conflicts', flush=True)
            continue
        env = dict(os.environ, VERIF_REPO=wt, VERIF_OUT=os.path.join(tmp, 'out'))
        rc, o = sh(f'./check {prop} quick', cwd='/verif', env=env)
        lines = [l for l in o.splitlines() if l.startswith('VIOLATION') or l.startswith('KNOWN')]
        out[commit] = {'property': prop, 'exit': rc, 'violation_lines': len(lines)}
        print(commit, prop, 'exit', rc, 'VIOLATION lines', len(lines), flush=True)
    finally:
        sh(f'git -C /repo worktree remove --force {wt}'); shutil.rmtree(tmp, ignore_errors=True)
json.dump(out, open('/verif/selftest/last_fix_reverts.json', 'w'), indent=1)
